#!/bin/sh
# Runs every claimed check (quick tier, no replay) and reports alarms.
cd "$(dirname "$0")"
rc=0
for p in $(python3 -c "import json;print(' '.join(c['property_id'] for c in json.load(open('MANIFEST.json'))['checks']))") "$@"; do
  out=$(./bin/govc check --property $p --no-replay 2>&1)
  echo "$out" | grep -E "^property=" | cut -c1-170
  if echo "$out" | grep -qE "^FAILED|^UNDECIDED|^VIOLATION"; then
    echo "$out" | grep -E "^FAILED|^UNDECIDED" | cut -c1-200
    rc=1
  fi
done
exit $rc
