#!/usr/bin/env python3
"""Regenerates MANIFEST.json from the table below (kept in one place so that
checks, not_applicable and engine.serves_properties stay consistent)."""
import json, subprocess

TECH = "contract-based deductive verification: VCs generated over go/ssa of the real code, discharged by z3 / cvc5"

# property -> (level text, level note)
CLAIMED = {
 "C18": ("Every obligation generated from contracts on iso8601.Parse, Valid, validate, daysSinceEpoch, isLeapYear, nonNumeric, unsafeStringToBytes (readDigits/readByte/isDigit/match inlined) is discharged for all inputs: Parse's fast path accepts exactly strict RFC 3339 'Z' timestamps with valid civil fields and returns time.Unix(independent Gregorian day count, nanos).UTC(), everything else is handed to time.Parse unchanged; Valid(s,f) <=> the flag-indexed grammar for every length and all flag values; no index/slice panic.",
         "Trusted: govc's translation, go/ssa, solvers; time.Unix/UTC/time.Parse as uninterpreted dependencies (a strict timestamp with valid fields is assumed to be accepted by time.Parse with the instant computed here); pow10 table imported from the initialised package at every run."),
 "C02": ("Partial, on the hand-written decimal/hex parsers and integer targets: parseInt/parseUint accept a literal iff its exact (128-bit ghost) value fits 64 bits and return that value, for digit runs of any length (loop invariants, no bound); leading-zero, lone-minus and float look-ahead rules; decodeInt8..decodeUint64/decodeInt/decodeUint/decodeUintptr store a literal iff the parsed value fits the target width and leave the target untouched for null or on a parse error; parseUintHex/parseUnicode exact; number/string/literal scanners as in C05.",
         "Not under contract: struct key lookup, map merge, interface and Unmarshaler dispatch, float parsing (strconv), ',string' decoders, arrays/slices (reflection and raw memory growth). inputError's classification of the error is trusted."),
 "C05": ("Partial: the scalar scanners and the recursive-descent validator: parseNull/True/False accept exactly their literal; parseNumber returns a prefix made of number characters, starting with -?digit, ending in a digit, maximal for integers, with the right kind; parseString (8/16-byte word search fast path and slow path) returns a quoted prefix without control bytes, Unescaped only if every byte is printable ASCII without quote or backslash - for every position of every byte, using the whole-input flags only under the proved flag-soundness precondition; parseValue/parseArray/parseObject split their input into value and rest (definitional windows), establish flag soundness for every recursive call and never read outside the input; skipSpaces/trimTrailingSpaces exact.",
         "Not under contract: the closed theorem Valid(b) <=> b in L(RFC 8259) for nested documents (separator protocol of the loops is checked only through the split contracts), Valid/RawMessage/Marshaler consumers, nesting depth. Trusted: bytes.IndexByte, ascii.ValidPrint (C20 contract)."),
 "C03": ("Partial, at the level of the codecs every message is built from: each size function equals an explicit size spec and each encode function returns exactly that size when the buffer suffices (and an error otherwise), for bool/int/int32/int64/uint/uint32/uint64/fixed32/fixed64/float32/float64/string/bytes; zig-zag and varint encode/decode are mutually inverse (lemmas); decoders store exactly the value the wire bytes denote.",
         "Not under contract: struct/slice/map/pointer combinator closures and reflection-driven codec construction (named in evidence.not_under_contract). Trusted: translation, solvers; destination buffer separate from the value being encoded."),
 "C07": ("Partial: totality and bounds-safety (no index/slice/nil panic for any byte string and any length) and exact results of decodeVarint (with termination measure), decodeVarintZigZag, decodeLE32/64, decodeTag, decodeVarlen (window never exceeds the input, no wrap-around for 64-bit lengths), every scalar decoder, decodeString (allocation bounded by the input) and the field-level Parse (value/rest windows adjacent, strictly shorter rest) and Scan (terminates).",
         "Not under contract: structDecodeFuncOf closure (unknown-field skipping), slice/map/message decoders. Trusted: translation, solvers; input buffer separate from the decode target."),
 "C12": ("Partial: the wire primitives equal spec functions transcribed from the protobuf encoding document: varint bytes and length, zig-zag (32/64), little-endian fixed32/64, tag = number<<3|type, length-prefixed strings/bytes; decoders return the spec value for every conformant (also non-minimal) varint; bool is a varint.",
         "Spec functions are hand transcriptions of the protobuf encoding document (assumption A5). Not under contract: struct/map layout closures, TypeOf table."),
 "C16": ("Partial: for every primitive and scalar encode function, for every destination length: enough room => (size, nil) and exactly the spec bytes, less room => an error, and every store lies inside b[0:size] (frame obligations), never at or beyond len(b).",
         "Not under contract: struct/slice/map/message/custom encode closures (remaining-space checks of combinators)."),
 "C04": ("Partial: every Writer method of both protocols appends exactly the specified bytes and the matching Reader method returns the specified value for those bytes (so Read after Write is the identity for every primitive, field/list/map header and length); Encoder/Decoder Reset rebuild the protocol flags exactly as NewEncoder/NewDecoder do and keep the strict bit; the struct decoder's seen/required bitmap indexing is in bounds for every id range.",
         "Not under contract: reflect-driven struct/list/map encoders and decoders (structEncoder.encode, decodeFunc*Of closures). Trusted: io.Writer/io.Reader/bytes/bufio/encoding-binary varint functions behave as documented for an in-memory stream; Protocol.Features() reports only defined features."),
 "C08": ("Partial: every Reader method of both protocols is total (no panic) on every input stream, returns sizes and lengths in [0, MaxInt32], returns bare io.EOF only when nothing at all was available and an unexpected-EOF/other error for every truncation, and advances the stream position exactly past what it decoded; dontExpectEOF never returns io.EOF; the struct decoder closure's bitmap indexing is in bounds.",
         "Not under contract: allocation from wire sizes in ReadBytes/ReadMessage and reflect.MakeSlice/MakeMapWithSize, skip* recursion depth, Unmarshal trailing-bytes rule, MissingField/TypeMismatch reporting (reflection-driven decoder). Trusted: io.ReadFull / ReadByte / binary.ReadUvarint contracts for an in-memory stream."),
 "C13": ("Writer and Reader methods of both protocols against byte layouts transcribed from the Apache Thrift binary and compact protocol specifications: big-endian fixed-width integers and doubles, length-prefixed binaries, field/list/map headers, zig-zag varints, delta short form, size short form below 15, one-byte empty map, message headers; readers accept long forms. 14 obligations fail on the current tree and are recorded as open known findings (binary protocol type codes, 3-byte stop field, message header version/type, compact double endianness); each has a '.actual' clause pinning the present behaviour so that any other deviation is still reported.",
         "Spec functions are hand transcriptions of the two protocol documents (no reference implementation offline). Trusted: io / bytes / bufio / encoding-binary functions as documented."),
 "C20": ("The fourteen exported wrappers return exactly the byte-wise definition applied to their own arguments (all bytes < 0x80; all bytes in 0x20-0x7e; equal length and equal after folding only A-Z; prefix/suffix by length and window) given the dependency's functions satisfy those definitions.",
         "The dependency github.com/segmentio/asm/ascii (pure-Go fallback and amd64 assembly) is assumed to satisfy the byte-wise definitions; it is not verified here."),
 "C06": ("Partial: panic-freedom and termination of the hand-written json code under contract, for every input of every length: no index, slice-bounds, nil-dereference, type-assertion or explicit panic in skipSpaces/skipSpacesN/trimTrailingSpaces, parseNull/True/False, parseNumber, parseString (word-at-a-time and slow paths), parseUintHex/parseUnicode, parseValue/parseArray/parseObject (one level), parseInt/parseUint, decodeInt8..decodeUint64/decodeInt/decodeUint/decodeUintptr, Tokenizer.Next/Reset and the scope stack. Termination: the index-driven scanner loops (trimTrailingSpaces, parseNumber, parseString slow path, parseInt/parseUint) have termination measures (decreases obligations); range loops terminate by construction; Tokenizer.Next makes strict progress on success.",
         "Not proved: termination of the parseValue/parseArray/parseObject recursion as a whole (each level returns a strictly shorter rest, no measure is generated across the recursion). Not decidable by this technique: exhaustion of the goroutine stack by deeply nested documents or cyclic values (function contracts have no model of stack growth; recursion depth is bounded only by input length), the reflection-driven encoder/decoder construction, encoders, Unmarshaler/Marshaler callbacks, float parsing (strconv)."),
 "C10": ("Partial: the read side of the ownership rule for the code under contract: every scanner, parser and integer decoder has the frame 'modifies nothing' (integer decoders: only the target word), so no store they execute can land in the input buffer (one frame obligation per store and per callee); Tokenizer.Next writes only the tokenizer, its scope stack or memory that did not exist before the call, which the representation invariant separates from the input (lemma next-frame-excludes-input); values handed out by the scanners and the tokenizer are windows of the input (zero-copy is the only sharing).",
         "Not under contract: copies made for strings/Numbers/RawMessages without zero-copy flags (decodeString/decodeBytes and the unsafe conversions), the Decoder's read buffer reuse, pooled encoder buffers, stability of results across later calls and goroutines (whole-history statements)."),
 "C11": ("Partial: Decoder.readValue (the framing loop behind Decode) against a byte stream in ghost state whose reader may deliver any number of bytes per call and any error when it delivers fewer: under the representation invariant decInv (the unread window is the tail of the buffer; InputOffset equals the stream position of the first unread byte; the buffer does not overlap the Decoder; no internal fast-path flag is set between calls), which every return re-establishes, for every chunking and every reader error: no panic, every write stays in the Decoder, its current buffer or freshly allocated memory (loop frame checked write by write); InputOffset never decreases; a returned value is a window of the buffer ending where the unread window begins; a number is returned only when a following byte, skipped whitespace, EOF or a reader error shows that it is complete (the defect fixed in d4b3ac2 was found by this clause); once the reader has reported an error nothing more is read; the refill loop terminates (variant on unread stream length and the error state). skipSpacesN's count is exact (fix 88d3b08).",
         "Not proved: that the buffered bytes equal the stream bytes across compaction and growth (content invariant: discharged on half of the loop paths only, therefore dropped - window arithmetic is proved, byte contents are not), equality of the value stream with encoding/json's, Decode's use of Parse, Buffered. Assumed: io.ReadFull's contract over the ghost stream; streams shorter than 1 TiB; soundness of the fast-path flags for the window handed to parseValue (assumed at that call, see C05)."),
 "C15": ("Partial, for the leaf encoders encodeNull, encodeBool, encodeInt/Int8/16/32/64, encodeUint/Uintptr/Uint8/16/32/64 (through appendInt/appendUint/formatInteger) and encodeBytes, for every length and every spare capacity of the destination: the result begins with the destination's bytes (prefix clause over the pre-state memory), it is the same array grown in place or a freshly allocated one, and every store executed lands at an offset >= len(b) of b's backing array or in fresh memory (one frame obligation per store, append and callee); the appended bytes are given independently of len(b)/cap(b): exact for null/true/false, one- and two-digit integers (against the lookup tables of the initialised package) and the quotes of encodeBytes, sign and length bounds for the other integers.",
         "Not under contract: encodeString (a contract was written and abandoned: every obligation timed out), encodeToString, floats/Number/Duration/Time (strconv, time), containers, structs and their roll-back paths, Append/Marshal themselves (reflection-driven codec construction). Assumed: asm/base64 EncodedLen/Encode contracts."),
 "C01": ("Partial: pieces of the byte-for-byte equality that are decidable per function: escapeIndex returns -1 exactly when every byte of the string may be copied verbatim under encoding/json's rule (printable ASCII incl. DEL, except quote and backslash, and except < > & when HTML escaping is on) - the word-at-a-time scan and the byte tail, both directions; encodeNull/encodeBool write exactly null/true/false; integer encoders write the exact decimal digits for values below 100 (table contents imported from the initialised package), a leading '-' exactly for negative values, and between 1 and 20 digits otherwise; nil []byte encodes as null and non-nil as a quoted text of the base64 length.",
         "Not under contract: the digits of integers >= 100 (loop invariant relating the table entries to the value was not written), string escaping beyond the verbatim decision, floats, struct/map/slice/interface encoders, Marshaler paths, RawMessage (defects #15/#16 of DESIGN section 10 are not decided), the Encoder's indent/escape settings. Observation: escapeIndex returns the offset within the 8-byte word, not within the string, when the first byte to escape lies beyond the first word; its only caller uses the value as a lower bound, so no output changes."),
 "C17": ("Partial, per call: Tokenizer.Next under the representation invariant tokInv (scope stack well formed and separate from the tokenizer and from the input), which Reset establishes and every successful Next re-establishes: no panic for any input; once Err is set Next returns false and changes nothing; a successful Next returns a non-empty Value that is a window of the input ending exactly where the remaining input begins (strict progress); Delim is set exactly for the six delimiter bytes; Kind follows the first byte of the token; for scalars Depth/Index/IsKey equal the stack depth, the top sibling counter minus one and the pending-key flag; '{'/'[' push one level, '}'/']' pop one level of the matching type and clear the pending key, ',' increments the sibling counter and re-arms the key flag inside objects, ':' clears it; Next writes only the tokenizer, its scope stack or memory that did not exist before the call (frame obligations), which with tokInv excludes the input bytes (lemma). Stack methods, Kind/Remaining and the RawValue class predicates equal their definitions.",
         "Not under contract: the closed statement about whole token streams (concatenation equals the compacted document; agreement with encoding/json's token stream) - an induction over calls that is argued from the per-call contract, not proved; Int/Uint/Float/String value accessors beyond parseInt/parseUint (C02); stack.push's append (trusted contract) and what sync.Pool.Get hands out (assumed: well-formed private stacks of any length; acquireStack's truncation is verified); the type and counter of the freshly pushed entry as seen after Next returns. Trusted: the tokenizer's memory is only reached through the receiver inside Next (unpacked receiver)."),
 "C19": ("Partial: seen-field bitmap sizing and indexing (makeFieldset/has/set), MessageRewriter.Rewrite panic-freedom and termination for every rewriter length and every field number the wire allows, Parse's field windows, EncodeTag/DecodeTag inverse.",
         "Not under contract: JSON template compilation (parseRewriteTemplate*, reflection + json), embddedRewriter splice, Append layout; Rewriter implementations called through the interface are havoc."),
}

NOT_APPLICABLE = {
 "C09": "quantifies over schedules of concurrent first use; function contracts and the sequential VCs govc generates have no notion of another thread (DESIGN section 5 C09)",
}

NOT_YET = {
 "C14": "not built yet (json flags)",
}

def hook_commits():
    out = subprocess.run(["git", "-C", "/repo", "log", "--format=%h %s"], capture_output=True, text=True).stdout
    return [l.split()[0] for l in out.splitlines() if " verif hook:" in " " + l]

checks = []
for pid in sorted(CLAIMED):
    text, note = CLAIMED[pid]
    checks.append({
        "property_id": pid,
        "quick_cmd": f"./bin/govc check --property {pid} --tier quick",
        "thorough_cmd": f"./bin/govc check --property {pid} --tier thorough",
        "evidence_file": f"evidence/{pid}.json",
        "replay_cmd_template": "./bin/govc replay {path}",
        "engine": "govc",
        "level_claimed": {"category": "proof", "text": text, "design_ref": f"DESIGN.md section 5 {pid}"},
        "level_note": note,
        "technique": TECH,
    })

na = [{"property_id": k, "reason": v} for k, v in sorted(NOT_APPLICABLE.items())]
na += [{"property_id": k, "reason": v} for k, v in sorted(NOT_YET.items()) if k not in CLAIMED]

manifest = {
    "version": 1,
    "setup_cmd": "./setup.sh",
    "hooks": {
        "guard": "verif",
        "enable": "go build -tags verif (the hook files are comment-only contract files zz_contracts_verif.go read by govc; they add no code)",
        "baseline_off_cmd": "for m in $(cat /w/out/gomods.txt); do MF=$(cd /repo/$m && . /w/out/goenv.sh && gomodflag); (cd /repo/$m && go test $MF -json -vet=off -count=1 -timeout 25m ./...); done",
        "source_commits": list(reversed(hook_commits())),
        "add_only": True,
    },
    "engines": [{
        "name": "govc",
        "path": "cmd/govc",
        "serves_properties": sorted(CLAIMED),
        "kind_free_text": "verification-condition generator for Go: go/ssa of /repo's working tree -> SMT-LIB (bit-vectors + flat byte memory), contracts in comment-only files, obligations discharged by z3 4.8.12 / z3 5.1.0 / cvc5",
    }],
    "checks": checks,
    "not_applicable": na,
    "notes": "Contracts live in /repo/<pkg>/zz_contracts_verif.go (build tag verif, comment-only). Genuine defects found by failing obligations were repaired in /repo with 'fix:' commits and are listed in known_findings.json as fixed.",
}
json.dump(manifest, open("/verif/MANIFEST.json", "w"), indent=1)
print("MANIFEST.json:", len(checks), "checks;", len(na), "not applicable")
