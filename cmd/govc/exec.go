package main

// Symbolic execution of go/ssa function bodies into verification conditions.
//
// A function body is turned into a DAG of (block, unroll-context) nodes: back
// edges of loops that carry an invariant are cut (havoc + assume invariant at
// the header, assert invariant at the back edge), back edges of loops marked
// "unroll K"/"bounded K" advance an iteration counter (K+1-th traversal is an
// unwinding assertion / assumption). The DAG is processed in topological order
// with state merging (ite) at joins, so the VC is linear in the code size.

import (
	"fmt"
	"go/constant"
	"go/token"
	"go/types"
	"math/big"
	"os"
	"sort"
	"strings"

	"golang.org/x/tools/go/ssa"
)

type Obligation struct {
	ID      string
	Kind    string // safety | ensures | requires | invariant | frame | unwind | decreases | assert
	Label   string
	Func    string
	Cond    *Term // path condition under which Goal must hold
	Goal    *Term
	NAssume int // number of engine assumptions in force
	Pos     token.Position
	Desc    string
	Props   []string
	Splits  []*Term // case split: one query per element (their disjunction is valid)
	Parts   []oblPart // path split: the obligation is the conjunction of (Cond => Goal) over the parts
	Bounded bool // path went through a bounded (assumed-unwinding) loop
	Cut     bool // path went through a loop cut or an abstracted callee
	// filled by the solver stage
	Result Result
}

type oblPart struct {
	Cond, Goal *Term
}

type loopInfo struct {
	header  *ssa.BasicBlock
	body    map[*ssa.BasicBlock]bool
	ordinal int
	spec    *LoopSpec
}

type edgeIn struct {
	cond *Term
	env  map[ssa.Value]Val
	mem  *Mem
	gh   *Ghost
	from *ssa.BasicBlock
	st   pathFlags
}

type pathFlags struct {
	bounded bool
	cut     bool
}

type xnode struct {
	blk   *ssa.BasicBlock
	ctx   string
	cnt   map[int]int // loop ordinal -> iteration count (unrolled loops only)
	tag   string      // path tag for tail duplication
	in    []edgeIn
	succs []*xnode
	mark  int
	tgt   map[*ssa.BasicBlock]succRes // memoised successor decisions (the DAG built by expand is the one executed)
}

type succRes struct {
	n    *xnode
	kind string
	li   *loopInfo
}

type retRec struct {
	cond *Term
	vals []Val
	env  map[ssa.Value]Val
	blk  *ssa.BasicBlock
	mem  *Mem
	gh   *Ghost
	st   pathFlags
}

type Frame struct {
	e        *Engine
	fn       *ssa.Function
	con      *Contract
	top      bool
	params   []Val
	free     []Val
	entryMem *Mem
	entryGh  *Ghost
	loops    []*loopInfo
	loopOf   map[*ssa.BasicBlock]*loopInfo // header -> loop
	nodes    map[string]*xnode
	rets     []retRec
	names    map[string][]ssa.Value
	depth    int
	idPrefix string
	counters map[string]int
	allocs   []allocRec // allocations made in this frame (for frame checks)
	entryAsm int
	defers   []*ssa.Defer
	retPos    token.Pos
	preGhost  *Ghost
	callWitness map[string]SV
	curBlock  *ssa.BasicBlock
	ghostVals map[string]SV // loop ghost variables (value at the loop header)
	boundTypes map[string]types.Type
	tails     map[*ssa.BasicBlock]int
	noTailSplit bool
	callOrd   map[*ssa.Call]int
	loopEntry map[*loopInfo]*Mem
	loopEntryGh map[*loopInfo]*Ghost
	decHead   map[*loopInfo]*Term
	inlineSet map[string]bool   // callees expanded in place in this verification (from the top contract)
	addrNames map[string]*ssa.Alloc      // address-taken locals by source name (nil when ambiguous)
	addrAll   map[string][]*ssa.Alloc    // all of them, in block order (name__k selects the k-th)
	parent    *Frame                     // inlined frames: the frame of the call site
	parentEnv map[ssa.Value]Val          // ... and its environment at the call
	loopKeeps map[*loopInfo][]designator // declared 'keeps' regions
	loopMods  map[*loopInfo][]designator // declared loop frames, evaluated at the loop head
	unp       []*unpObj         // unpacked objects (shared with inlined frames)
	unpIn     map[*unpObj]Val   // inlined frame: objects at entry
	unpOut    map[*unpObj]Val   // inlined frame: objects at return
}

type allocRec struct {
	ptr, size *Term
}

func fnName(fn *ssa.Function) string {
	// pkg.Func, pkg.(T).Method / pkg.(*T).Method, pkg.Outer$1
	s := fn.String()
	// fn.String() gives e.g. "github.com/segmentio/encoding/proto.encodeVarint" or
	// "(*github.com/segmentio/encoding/json.Tokenizer).Next"
	return shortName(s)
}

func shortName(s string) string {
	// strip import path prefixes, keeping the last path element
	var sb strings.Builder
	i := 0
	for i < len(s) {
		// find a path-like token
		j := i
		for j < len(s) && (isIdentByte(s[j]) || s[j] == '/' || s[j] == '.' || s[j] == '-') {
			j++
		}
		if j > i {
			tok := s[i:j]
			if k := strings.Index(tok, "github.com/segmentio/asm/"); k >= 0 {
				// the dependency has packages named like the repository's own
				tok = "asm/" + tok[k+len("github.com/segmentio/asm/"):]
			} else if k := strings.LastIndex(tok, "/"); k >= 0 {
				tok = tok[k+1:]
			}
			sb.WriteString(tok)
			i = j
			continue
		}
		sb.WriteByte(s[i])
		i++
	}
	return sb.String()
}

func isIdentByte(c byte) bool {
	return c == '_' || c == '$' || c >= '0' && c <= '9' || c >= 'a' && c <= 'z' || c >= 'A' && c <= 'Z' || c >= 0x80
}

// ---------------------------------------------------------------------------

func (e *Engine) newFrame(fn *ssa.Function, con *Contract, top bool, depth int) *Frame {
	f := &Frame{e: e, fn: fn, con: con, top: top, depth: depth, loopOf: map[*ssa.BasicBlock]*loopInfo{},
		nodes: map[string]*xnode{}, names: map[string][]ssa.Value{}, counters: map[string]int{}, boundTypes: map[string]types.Type{},
		loopEntry: map[*loopInfo]*Mem{}, decHead: map[*loopInfo]*Term{}}
	f.findLoops()
	for _, b := range fn.Blocks {
		for _, ins := range b.Instrs {
			switch x := ins.(type) {
			case *ssa.DebugRef:
				if !x.IsAddr {
					if id, ok := x.Expr.(interface{ String() string }); ok {
						_ = id
					}
					if obj := x.Object(); obj != nil {
						f.addName(obj.Name(), x.X)
					}
				}
			case *ssa.Phi:
				if x.Comment != "" {
					f.addName(x.Comment, x)
				}
			case *ssa.Alloc:
				if x.Comment != "" && isIdentName(x.Comment) {
					if f.addrNames == nil {
						f.addrNames = map[string]*ssa.Alloc{}
					}
					if _, dup := f.addrNames[x.Comment]; !dup {
						f.addrNames[x.Comment] = x
					} else {
						f.addrNames[x.Comment] = nil // ambiguous
					}
					if f.addrAll == nil {
						f.addrAll = map[string][]*ssa.Alloc{}
					}
					f.addrAll[x.Comment] = append(f.addrAll[x.Comment], x)
				}
			}
		}
	}
	return f
}

func isIdentName(s string) bool {
	for i := 0; i < len(s); i++ {
		c := s[i]
		if !(c == '_' || c >= 'a' && c <= 'z' || c >= 'A' && c <= 'Z' || (i > 0 && c >= '0' && c <= '9')) {
			return false
		}
	}
	return s != ""
}

func (f *Frame) addName(n string, v ssa.Value) {
	for _, x := range f.names[n] {
		if x == v {
			return
		}
	}
	f.names[n] = append(f.names[n], v)
}

func (f *Frame) findLoops() {
	fn := f.fn
	byHeader := map[*ssa.BasicBlock]*loopInfo{}
	for _, u := range fn.Blocks {
		for _, h := range u.Succs {
			if h.Dominates(u) { // back edge u -> h
				li := byHeader[h]
				if li == nil {
					li = &loopInfo{header: h, body: map[*ssa.BasicBlock]bool{h: true}}
					byHeader[h] = li
				}
				// natural loop: nodes that reach u without passing through h
				stack := []*ssa.BasicBlock{u}
				for len(stack) > 0 {
					x := stack[len(stack)-1]
					stack = stack[:len(stack)-1]
					if li.body[x] {
						continue
					}
					li.body[x] = true
					stack = append(stack, x.Preds...)
				}
			}
		}
	}
	var hs []*ssa.BasicBlock
	for h := range byHeader {
		hs = append(hs, h)
	}
	sort.Slice(hs, func(i, j int) bool { return hs[i].Index < hs[j].Index })
	for i, h := range hs {
		li := byHeader[h]
		li.ordinal = i + 1
		if f.con != nil {
			li.spec = f.con.Loops[li.ordinal]
		}
		f.loops = append(f.loops, li)
		f.loopOf[h] = li
	}
}

func ctxString(cnt map[int]int) string {
	if len(cnt) == 0 {
		return ""
	}
	var ks []int
	for k := range cnt {
		ks = append(ks, k)
	}
	sort.Ints(ks)
	var sb strings.Builder
	for _, k := range ks {
		fmt.Fprintf(&sb, "L%d:%d,", k, cnt[k])
	}
	return sb.String()
}

func (f *Frame) getNode(b *ssa.BasicBlock, cnt map[int]int, tag string) (*xnode, bool) {
	key := fmt.Sprintf("%d|%s|%s", b.Index, ctxString(cnt), tag)
	if n, ok := f.nodes[key]; ok {
		return n, false
	}
	n := &xnode{blk: b, ctx: ctxString(cnt) + tag, cnt: cnt, tag: tag}
	f.nodes[key] = n
	return n, true
}

// tailSize: number of blocks reachable from b if that region is small and
// loop-free (a "tail" of the function), else -1. Joins inside tails are not
// merged: each incoming path gets its own copy of the tail, so that
// postconditions are checked on path-specific (syntactically simpler) states.
func (f *Frame) tailSize(b *ssa.BasicBlock) int {
	if f.tails == nil {
		f.tails = map[*ssa.BasicBlock]int{}
	}
	if v, ok := f.tails[b]; ok {
		return v
	}
	seen := map[*ssa.BasicBlock]bool{}
	stack := []*ssa.BasicBlock{b}
	ok := true
	lim := 10
	if f.con != nil && f.con.TailSize > 0 {
		lim = f.con.TailSize
	}
	// Inside the body of a cut loop the region ends at the back edge (the loop
	// head is a cut point like a return), so paths through a loop body can be
	// kept apart as well; this is only done on request (tail N).
	inCut := func(x *ssa.BasicBlock) *loopInfo {
		var best *loopInfo
		for _, li := range f.loops {
			if li.body[x] {
				if mode, _ := li.mode(); mode != lmCut || f.con == nil || f.con.TailSize == 0 {
					return &loopInfo{} // unrolled loop or default settings: not a tail
				}
				best = li
			}
		}
		return best
	}
	for len(stack) > 0 && ok {
		x := stack[len(stack)-1]
		stack = stack[:len(stack)-1]
		if seen[x] {
			continue
		}
		seen[x] = true
		if len(seen) > lim {
			ok = false
			break
		}
		li := inCut(x)
		if li != nil && li.header == nil {
			ok = false
			break
		}
		if f.loopOf[x] != nil && x != b {
			// entering another loop from here: not loop-free
			ok = false
			break
		}
		if f.loopOf[x] != nil && x == b {
			ok = false // a loop head itself is never split
			break
		}
		for _, s := range x.Succs {
			if li != nil && s == li.header {
				continue // back edge of the enclosing cut loop: region ends here
			}
			stack = append(stack, s)
		}
	}
	r := -1
	if ok {
		r = len(seen)
	}
	f.tails[b] = r
	return r
}

func (f *Frame) nodeCap() int {
	if f.con != nil && f.con.TailSize > 10 {
		return 3000
	}
	return 400
}

type loopMode int

const (
	lmCut loopMode = iota
	lmUnroll
	lmBounded
)

func (li *loopInfo) mode() (loopMode, int) {
	if li.spec == nil {
		return lmCut, 0 // no annotation: cut with invariant "true" (sound over-approximation)
	}
	if li.spec.Unroll > 0 {
		if li.spec.Bounded {
			return lmBounded, li.spec.Unroll
		}
		return lmUnroll, li.spec.Unroll
	}
	return lmCut, 0
}

// succTarget computes the node reached over CFG edge u -> v from node n, or
// (nil, kind) for a cut back edge ("back") or an exhausted unrolling ("unwind").
func (f *Frame) succTarget(n *xnode, v *ssa.BasicBlock) (*xnode, string, *loopInfo) {
	if r, ok := n.tgt[v]; ok {
		return r.n, r.kind, r.li
	}
	a, b, c := f.succTarget0(n, v)
	if n.tgt == nil {
		n.tgt = map[*ssa.BasicBlock]succRes{}
	}
	n.tgt[v] = succRes{a, b, c}
	return a, b, c
}

func (f *Frame) succTarget0(n *xnode, v *ssa.BasicBlock) (*xnode, string, *loopInfo) {
	u := n.blk
	cnt := map[int]int{}
	for k, c := range n.cnt {
		// keep counters only for loops that contain v
		if f.loops[k-1].body[v] {
			cnt[k] = c
		}
	}
	if li := f.loopOf[v]; li != nil {
		mode, k := li.mode()
		back := li.body[u] && v.Dominates(u)
		if mode == lmCut {
			if back {
				return nil, "back", li
			}
		} else {
			if back {
				c := n.cnt[li.ordinal] + 1
				if c > k {
					return nil, "unwind", li
				}
				cnt[li.ordinal] = c
			} else {
				cnt[li.ordinal] = 0
			}
		}
	}
	tag := n.tag
	if len(v.Preds) > 1 {
		if f.tailSize(v) > 0 && len(f.nodes) < f.nodeCap() && !f.noTailSplit {
			tag = fmt.Sprintf("%s/%d", n.tag, u.Index)
		} else {
			tag = ""
		}
	}
	x, _ := f.getNode(v, cnt, tag)
	return x, "", nil
}

// expand builds the DAG and returns it in topological order.
func (f *Frame) expand() []*xnode {
	entry, _ := f.getNode(f.fn.Blocks[0], map[int]int{}, "")
	var order []*xnode
	// iterative DFS for post-order
	type item struct {
		n *xnode
		i int
	}
	stack := []item{{entry, 0}}
	entry.mark = 1
	for len(stack) > 0 {
		it := &stack[len(stack)-1]
		if it.i == 0 {
			// compute successors
			for _, v := range it.n.blk.Succs {
				if t, _, _ := f.succTarget(it.n, v); t != nil {
					it.n.succs = append(it.n.succs, t)
				}
			}
		}
		if it.i < len(it.n.succs) {
			s := it.n.succs[it.i]
			it.i++
			if s.mark == 0 {
				s.mark = 1
				stack = append(stack, item{s, 0})
			} else if s.mark == 1 {
				panic(fmt.Sprintf("%s: irreducible control flow or unannotated cycle at block %d", f.fn.Name(), s.blk.Index))
			}
			continue
		}
		it.n.mark = 2
		order = append(order, it.n)
		stack = stack[:len(stack)-1]
	}
	// reverse post-order
	for i, j := 0, len(order)-1; i < j; i, j = i+1, j-1 {
		order[i], order[j] = order[j], order[i]
	}
	if len(order) > f.e.maxNodes {
		panic(fmt.Sprintf("%s: unrolled graph too large (%d nodes)", f.fn.Name(), len(order)))
	}
	return order
}

// ---------------------------------------------------------------------------

type execState struct {
	reach *Term
	env   map[ssa.Value]Val
	mem   *Mem
	gh    *Ghost
	st    pathFlags
}

// Ghost is specification-only state threaded through execution like memory:
// scalar ghost variables (outlen, inpos, inlen) and ghost byte streams (out,
// in), each its own memory so that it never interferes with the real one.
type Ghost struct {
	sc map[string]*Term
	mm map[string]*Mem
}

var ghostScalars = []string{"outlen", "inpos", "inlen", "ticks"} // ticks: a progress counter contracts may bump ("sets TICKS := ticks() + 1")
var ghostMems = []string{"out", "in"}

func (e *Engine) freshGhost(hint string) *Ghost {
	g := &Ghost{sc: map[string]*Term{}, mm: map[string]*Mem{}}
	for _, n := range ghostScalars {
		g.sc[n] = e.tb.Fresh("ghost."+n+hint, BV(64))
	}
	for _, n := range ghostMems {
		g.mm[n] = e.mc.Base("ghost." + n + hint)
	}
	return g
}

// freshGhostFrom: everything about the ghost state is unknown after code that
// has no contract, except the progress counter, which only contracts move.
func (e *Engine) freshGhostFrom(old *Ghost, hint string) *Ghost {
	g := e.freshGhost(hint)
	if old != nil {
		if t, ok := old.sc["ticks"]; ok {
			g.sc["ticks"] = t
		}
	}
	return g
}

func (g *Ghost) withScalar(n string, t *Term) *Ghost {
	r := &Ghost{sc: map[string]*Term{}, mm: g.mm}
	for k, v := range g.sc {
		r.sc[k] = v
	}
	r.sc[n] = t
	return r
}

func (g *Ghost) withMem(n string, m *Mem) *Ghost {
	r := &Ghost{sc: g.sc, mm: map[string]*Mem{}}
	for k, v := range g.mm {
		r.mm[k] = v
	}
	r.mm[n] = m
	return r
}

func (e *Engine) mergeGhost(conds []*Term, gs []*Ghost) *Ghost {
	same := true
	for _, g := range gs[1:] {
		if g != gs[0] {
			same = false
		}
	}
	if same {
		return gs[0]
	}
	r := &Ghost{sc: map[string]*Term{}, mm: map[string]*Mem{}}
	for _, n := range ghostScalars {
		v := gs[len(gs)-1].sc[n]
		for i := len(gs) - 2; i >= 0; i-- {
			v = e.tb.Ite(conds[i], gs[i].sc[n], v)
		}
		r.sc[n] = v
	}
	for _, n := range ghostMems {
		ms := make([]*Mem, len(gs))
		for i, g := range gs {
			ms[i] = g.mm[n]
		}
		r.mm[n] = e.mc.Merge(conds, ms)
	}
	return r
}

func (f *Frame) mergeIn(n *xnode) *execState {
	e := f.e
	tb := e.tb
	ins := n.in
	// drop infeasible edges
	var live []edgeIn
	for _, in := range ins {
		if !in.cond.IsFalse() {
			live = append(live, in)
		}
	}
	if len(live) == 0 {
		return nil
	}
	st := &execState{env: map[ssa.Value]Val{}}
	var conds []*Term
	var mems []*Mem
	var ghs []*Ghost
	for _, in := range live {
		conds = append(conds, in.cond)
		mems = append(mems, in.mem)
		ghs = append(ghs, in.gh)
		st.st.bounded = st.st.bounded || in.st.bounded
		st.st.cut = st.st.cut || in.st.cut
	}
	st.reach = tb.Or(conds...)
	st.mem = e.mc.Merge(conds, mems)
	st.gh = e.mergeGhost(conds, ghs)
	if len(live) == 1 {
		for k, v := range live[0].env {
			st.env[k] = v
		}
	} else {
		for k, v0 := range live[0].env {
			v := v0
			ok := true
			// fold from the last to the first so that conds[i] selects env i
			vals := make([]Val, len(live))
			vals[0] = v0
			for i := 1; i < len(live); i++ {
				vi, has := live[i].env[k]
				if !has {
					ok = false
					break
				}
				vals[i] = vi
			}
			if !ok {
				continue
			}
			v = vals[len(live)-1]
			for i := len(live) - 2; i >= 0; i-- {
				if !sameVal(vals[i], v) {
					v = e.mergeVal(conds[i], vals[i], v)
				}
			}
			st.env[k] = v
		}
	}
	// phis
	for _, ins := range n.blk.Instrs {
		phi, ok := ins.(*ssa.Phi)
		if !ok {
			break
		}
		var v Val
		for i := len(live) - 1; i >= 0; i-- {
			idx := predIndex(n.blk, live[i].from)
			pv := f.operand(live[i].env, phi.Edges[idx])
			if v == nil {
				v = pv
			} else if !sameVal(pv, v) {
				v = e.mergeVal(conds[i], pv, v)
			}
		}
		st.env[phi] = v
	}
	return st
}

func predIndex(b, from *ssa.BasicBlock) int {
	for i, p := range b.Preds {
		if p == from {
			return i
		}
	}
	panic("pred not found")
}

// run executes the frame. Returns merged results.
func (f *Frame) run(args []Val, free []Val, mem *Mem, gh *Ghost, reach *Term, st0 pathFlags) (Val, *Mem, *Ghost, pathFlags, *Term) {
	e := f.e
	tb := e.tb
	f.params, f.free, f.entryMem, f.entryGh = args, free, mem, gh
	f.entryAsm = len(e.assumes)
	if len(f.fn.Blocks) == 0 {
		panic("no body: " + f.fn.String())
	}
	order := f.expand()
	env0 := map[ssa.Value]Val{}
	for i, p := range f.fn.Params {
		env0[p] = args[i]
	}
	for i, fv := range f.fn.FreeVars {
		env0[fv] = free[i]
	}
	if f.top && f.con != nil {
		for _, ac := range f.con.Afters {
			if ac.Init {
				_, rt := f.afterInstr(ac)
				env0[ghostKey{ac.Name}] = e.zeroVal(rt)
				f.boundTypes[ac.Name] = rt
			}
		}
	}
	if f.top && f.con != nil && len(f.con.Unpack) > 0 {
		for i, p := range f.fn.Params {
			for _, n := range f.con.Unpack {
				if n == p.Name() {
					f.unp = append(f.unp, &unpObj{name: n, base: args[i].(Scalar).T, et: p.Type().Underlying().(*types.Pointer).Elem()})
				}
			}
		}
		st0x := &execState{env: env0, mem: mem}
		f.unpackAll(st0x)
		e.trusted["unpacked receiver of "+fnName(f.fn)+": its memory is accessed only through the receiver inside the function"] = true
	}
	for o, v := range f.unpIn {
		env0[unpackKey{o}] = v
	}
	order[0].in = []edgeIn{{cond: reach, env: env0, mem: mem, gh: gh, st: st0}}
	for _, n := range order {
		st := f.mergeIn(n)
		if st == nil {
			continue
		}
		if li := f.loopOf[n.blk]; li != nil {
			if mode, _ := li.mode(); mode == lmCut {
				f.cutLoop(n, li, st)
			} else if li.spec != nil && len(li.spec.Inv) > 0 {
				f.iterInvariant(n, li, st)
			}
		}
		f.execBlock(n, st)
	}
	// merge returns
	if len(f.rets) == 0 {
		return nil, mem, gh, st0, tb.False()
	}
	var conds []*Term
	var mems []*Mem
	var ghs []*Ghost
	var flags pathFlags
	for _, r := range f.rets {
		conds = append(conds, r.cond)
		mems = append(mems, r.mem)
		ghs = append(ghs, r.gh)
		flags.bounded = flags.bounded || r.st.bounded
		flags.cut = flags.cut || r.st.cut
	}
	outMem := e.mc.Merge(conds, mems)
	nres := f.fn.Signature.Results().Len()
	var res Val
	if nres > 0 {
		vals := make([]Val, nres)
		for k := 0; k < nres; k++ {
			v := f.rets[len(f.rets)-1].vals[k]
			for i := len(f.rets) - 2; i >= 0; i-- {
				if !sameVal(f.rets[i].vals[k], v) {
					v = e.mergeVal(conds[i], f.rets[i].vals[k], v)
				}
			}
			vals[k] = v
		}
		if nres == 1 {
			res = vals[0]
		} else {
			res = TupleV{vals}
		}
	}
	if f.top {
		f.checkEnsuresPaths(flags)
	} else if len(f.unp) > 0 {
		f.unpOut = map[*unpObj]Val{}
		for _, o := range f.unp {
			v := f.rets[len(f.rets)-1].env[unpackKey{o}]
			for i := len(f.rets) - 2; i >= 0; i-- {
				w := f.rets[i].env[unpackKey{o}]
				if !sameVal(w, v) {
					v = e.mergeVal(conds[i], w, v)
				}
			}
			f.unpOut[o] = v
		}
	}
	return res, outMem, e.mergeGhost(conds, ghs), flags, tb.Or(conds...)
}

func (f *Frame) oblID(kind, label string) string {
	base := fmt.Sprintf("%s#%s", fnName(f.fn), kind)
	if label != "" {
		base += ":" + label
	}
	if f.idPrefix != "" {
		base = f.idPrefix + ">" + base
	}
	n := f.counters[base]
	f.counters[base] = n + 1
	if n > 0 {
		base = fmt.Sprintf("%s~%d", base, n+1)
	}
	return base
}

func (f *Frame) oblige(st *execState, kind, label string, cond, goal *Term, pos token.Pos, desc string) {
	e := f.e
	if goal.IsTrue() || cond.IsFalse() {
		e.trivial++
		if kind != "safety" {
			// keep non-safety obligations visible even when the simplifier closes them
			e.obls = append(e.obls, &Obligation{ID: f.oblID(kind, label), Kind: kind, Label: label, Func: fnName(f.fn), Cond: cond, Goal: goal,
				NAssume: len(e.assumes), Pos: e.position(pos), Desc: desc, Bounded: st.st.bounded, Cut: st.st.cut, Props: f.props()})
		}
		return
	}
	o := &Obligation{ID: f.oblID(kind, label), Kind: kind, Label: label, Func: fnName(f.fn), Cond: cond, Goal: goal,
		NAssume: len(e.assumes), Pos: e.position(pos), Desc: desc, Bounded: st.st.bounded, Cut: st.st.cut, Props: f.props()}
	e.obls = append(e.obls, o)
}

func (f *Frame) props() []string {
	if f.con != nil {
		return f.con.Props
	}
	return nil
}

// safety emits a safety obligation and then assumes it (execution continues
// only if the check passed, as at run time).
func (f *Frame) safety(st *execState, what string, goal *Term, pos token.Pos, desc string) {
	if f.e.noSafety {
		return
	}
	f.oblige(st, "safety", what, st.reach, goal, pos, desc)
	if !goal.IsTrue() {
		f.e.assume(f.e.tb.Implies(st.reach, goal))
	}
}

func (e *Engine) assume(t *Term) {
	if t.IsTrue() {
		return
	}
	e.assumes = append(e.assumes, t)
}

func (e *Engine) position(p token.Pos) token.Position {
	if !p.IsValid() {
		return token.Position{}
	}
	return e.prog.Fset.Position(p)
}

// rangeLen finds, for a #rangeindex phi, the length value it is compared with
// in the loop header (t = phi + 1; if t < len).
func rangeLen(phi *ssa.Phi) ssa.Value {
	for _, ins := range phi.Block().Instrs {
		b, ok := ins.(*ssa.BinOp)
		if !ok || b.Op != token.LSS {
			continue
		}
		if inc, ok := b.X.(*ssa.BinOp); ok && inc.Op == token.ADD && inc.X == phi {
			return b.Y
		}
	}
	return nil
}

// rangeInv is the implicit invariant -1 <= phi < len of a range-over-slice loop.
func (f *Frame) rangeInv(env map[ssa.Value]Val, phi *ssa.Phi, v *Term) *Term {
	tb := f.e.tb
	inv := tb.Sle(tb.ConstI(-1, v.sort.W), v)
	if l := rangeLen(phi); l != nil {
		if lv, ok := env[l]; ok {
			inv = tb.And(inv, tb.Slt(v, lv.(Scalar).T))
		} else if c, ok := l.(*ssa.Const); ok {
			inv = tb.And(inv, tb.Slt(v, f.e.constVal(c).(Scalar).T))
		}
	}
	return inv
}

// ---------------------------------------------------------------------------
// loop cut

func (f *Frame) cutLoop(n *xnode, li *loopInfo, st *execState) {
	e := f.e
	tb := e.tb
	f.curBlock = n.blk
	// a loop head is a boundary like a call for unpacked objects: invariants
	// speak about memory, so the objects are in memory while they are
	// evaluated, and re-read from the havoc'd memory afterwards
	loopStores := false
	if len(f.unp) > 0 {
		for b := range li.body {
			for _, ins := range b.Instrs {
				switch ins.(type) {
				case *ssa.Store, *ssa.Call:
					loopStores = true
				}
			}
		}
		if loopStores {
			f.packAll(st)
		}
	}
	// 0. implicit invariant of go/ssa's range-over-slice lowering: the index
	// phi starts at -1 and only ever increments below the length. It is
	// checked like a declared invariant (entry here, preservation at the back edge).
	for _, ins := range n.blk.Instrs {
		phi, ok := ins.(*ssa.Phi)
		if !ok {
			break
		}
		if phi.Comment == "rangeindex" {
			v := st.env[phi].(Scalar).T
			f.oblige(st, "invariant", fmt.Sprintf("L%d.rangeindex.entry", li.ordinal), st.reach, f.rangeInv(st.env, phi, v), li.header.Instrs[0].Pos(), "range index starts at -1, below the length")
		}
	}
	// 1. invariant on entry (ghost variables have their initial values)
	if li.spec != nil {
		if f.ghostVals == nil {
			f.ghostVals = map[string]SV{}
		}
		for _, g := range li.spec.Ghosts {
			gsc := f.scopeAt(st, nil)
			gsc.goal = false
			gsc.what = g.Init.Text
			f.ghostVals[g.Name] = gsc.coerceParam(gsc.eval(g.Init.Expr), g.Type, "ghost "+g.Name)
		}
		sc := f.scopeAt(st, nil)
		sc.loopEntryMem = st.mem
		sc.loopEntryGh = st.gh
		for _, inv := range li.spec.Inv {
			sc.goal = true
			g := e.evalBool(sc, inv.Expr, inv.Text)
			f.oblige(st, "invariant", fmt.Sprintf("L%d.%s.entry", li.ordinal, inv.Label), st.reach, g, li.header.Instrs[0].Pos(), "loop invariant on entry: "+inv.Text)
		}
		f.loopEntry[li] = st.mem
		if f.loopEntryGh == nil {
			f.loopEntryGh = map[*loopInfo]*Ghost{}
		}
		f.loopEntryGh[li] = st.gh
	}
	// 2. havoc header phis and memory
	var phis []*ssa.Phi
	for _, ins := range n.blk.Instrs {
		if phi, ok := ins.(*ssa.Phi); ok {
			phis = append(phis, phi)
		} else {
			break
		}
	}
	var inv []*Term
	for _, phi := range phis {
		hint := phi.Name()
		if phi.Comment != "" {
			hint = phi.Comment + "@" + phi.Name()
		}
		e.dynVals = true
		st.env[phi] = e.freshVal(fmt.Sprintf("%s.L%d.%s", f.fn.Name(), li.ordinal, hint), phi.Type(), &inv)
		e.dynVals = false
	}
	if f.con != nil {
		for _, ac := range f.con.Afters {
			if !ac.Init {
				continue
			}
			if c, rt := f.afterInstr(ac); li.body[c.Block()] {
				e.dynVals = true
				st.env[ghostKey{ac.Name}] = e.freshVal(fmt.Sprintf("%s.L%d.ghost.%s", f.fn.Name(), li.ordinal, ac.Name), rt, &inv)
				e.dynVals = false
			}
		}
	}
	for _, t := range inv {
		e.assume(tb.Implies(st.reach, t))
	}
	for _, phi := range phis {
		if phi.Comment == "rangeindex" {
			v := st.env[phi].(Scalar).T
			e.assume(tb.Implies(st.reach, f.rangeInv(st.env, phi, v)))
		}
	}
	memBefore := st.mem
	if li.spec != nil && li.spec.Modifies != nil && f.loopWrites(li) {
		// declared loop frame: memory regions and ghost state named there are
		// arbitrary at the loop head, everything else (in particular the
		// contents of the input stream) is as before the loop
		sc := f.scopeAt(st, nil)
		if f.loopMods == nil {
			f.loopMods = map[*loopInfo][]designator{}
		}
		f.loopMods[li] = nil
		for _, r := range li.spec.Modifies {
			sc.goal = false
			d := e.evalDesignator(sc, r.Expr, r.Text)
			f.loopMods[li] = append(f.loopMods[li], d)
			switch {
			case d.ghost == "":
				st.mem = e.mc.HavocRange(st.mem, d.lo, d.n, "loopmem")
			case d.lo == nil:
				st.gh = st.gh.withScalar(d.ghost, tb.Fresh(fmt.Sprintf("ghost.%s.L%d", d.ghost, li.ordinal), BV(64)))
			default:
				st.gh = st.gh.withMem(d.ghost, e.mc.HavocRange(st.gh.mm[d.ghost], d.lo, d.n, fmt.Sprintf("ghost.%s.L%d", d.ghost, li.ordinal)))
			}
		}
		// memory handed out by the allocator in earlier iterations (and written
		// there, which the loop frame allows) is arbitrary at the loop head
		var keeps []designator
		for _, k := range li.spec.Keeps {
			sc.goal = false
			keeps = append(keeps, e.evalDesignator(sc, k.Expr, k.Text))
		}
		if f.loopKeeps == nil {
			f.loopKeeps = map[*loopInfo][]designator{}
		}
		f.loopKeeps[li] = keeps
		beforeFresh := st.mem
		st.mem = e.mc.HavocRange(st.mem, tb.ConstU(preLimit, 64), tb.ConstU(addrLimit-preLimit, 64), "loopmem.fresh")
		// ... except the regions the loop declares it keeps (checked write by write)
		for _, d := range keeps {
			if d.ghost == "" {
				st.mem = e.mc.Region(st.mem, d.lo, d.n, beforeFresh)
			}
		}
	} else {
		st.mem = f.havocLoopMem(li, st)
		if st.mem != memBefore {
			var body []*ssa.BasicBlock
			for b := range li.body {
				body = append(body, b)
			}
			if f.movesTicks(body, 0) {
				// the progress counter is loop-carried state as well
				st.gh = e.freshGhost(fmt.Sprintf(".L%d", li.ordinal))
			} else {
				st.gh = e.freshGhostFrom(st.gh, fmt.Sprintf(".L%d", li.ordinal))
			}
		}
	}
	// unpacked objects are loop-carried state too: if the body may store to
	// them their memory is arbitrary at the loop head (constrained by the
	// invariant assumed below)
	if len(f.unp) > 0 && loopStores {
		for _, o := range f.unp {
			st.mem = e.mc.HavocRange(st.mem, o.base, tb.ConstU(uint64(sizes.Sizeof(o.et)), 64), "loop.unpacked."+o.name)
		}
	}
	st.st.cut = true
	// 3. assume invariant (ghost variables are arbitrary values satisfying it)
	if li.spec != nil {
		for _, g := range li.spec.Ghosts {
			ty, ok := specTypes[g.Type]
			if !ok {
				panic(specError{"ghost variable " + g.Name + ": unsupported type " + g.Type})
			}
			f.ghostVals[g.Name] = SV{k: kInt, t: tb.Fresh(fmt.Sprintf("ghost.%s.L%d", g.Name, li.ordinal), BV(ty.w)), signed: ty.signed}
		}
		// definitional loop-carried values
		for _, d := range li.spec.Defs {
			dsc := f.scopeAt(st, nil)
			dsc.goal = false
			dsc.what = d.Val.Text
			dv := dsc.eval(d.Val.Expr)
			done := false
			for _, phi := range phis {
				if phi.Comment == d.Name {
					switch {
					case dv.k == kVal:
						st.env[phi] = dv.v
					case dv.k == kInt:
						st.env[phi] = Scalar{dsc.toInt(dv, bitsOf(phi.Type()), isSigned(phi.Type()))}
					case dv.k == kUntyped:
						st.env[phi] = Scalar{tb.Const(dv.c, bitsOf(phi.Type()))}
					}
					done = true
				}
			}
			if !done {
				panic(specError{"loop define: no loop-carried variable " + d.Name})
			}
		}
		sc := f.scopeAt(st, nil)
		sc.loopEntryMem = f.loopEntry[li]
	sc.loopEntryGh = f.loopEntryGh[li]
		sc.loopEntryGh = f.loopEntryGh[li]
		for _, iv := range li.spec.Inv {
			e.assumeClause(sc, iv.Expr, iv.Text, st.reach)
		}
		if li.spec.Decreases != nil {
			sc.goal = false
			v := e.evalInt(sc, li.spec.Decreases, li.spec.DecreasesText)
			f.decHead[li] = v
		}
	}
	if len(f.unp) > 0 && loopStores {
		f.unpackAll(st)
	}
}

// iterInvariant: in an unrolled loop the declared invariants are asserted and
// then assumed at every visit of the header (each iteration copy), which cuts
// the reasoning into per-iteration steps without abstracting anything.
func (f *Frame) iterInvariant(n *xnode, li *loopInfo, st *execState) {
	e := f.e
	f.curBlock = n.blk
	sc := f.scopeAt(st, nil)
	for _, inv := range li.spec.Inv {
		sc.goal = true
		g := e.evalBool(sc, inv.Expr, inv.Text)
		f.oblige(st, "invariant", fmt.Sprintf("L%d.%s.iter%d", li.ordinal, inv.Label, n.cnt[li.ordinal]), st.reach, g, li.header.Instrs[0].Pos(), "invariant at iteration: "+inv.Text)
		e.assume(e.tb.Implies(st.reach, g))
	}
}

// havocLoopMem: memory after an arbitrary number of iterations. If the loop
// body contains no store, no call that may write and no copy/append, memory is
// unchanged; otherwise either the declared "modifies" ranges are havoc'd or
// (no declaration) everything is.
func (f *Frame) loopWrites(li *loopInfo) bool {
	for b := range li.body {
		for _, ins := range b.Instrs {
			switch x := ins.(type) {
			case *ssa.Store, *ssa.MapUpdate, *ssa.Send, *ssa.Go, *ssa.Defer:
				_ = x
				return true
			case *ssa.Call:
				if !f.callIsPure(x) {
					return true
				}
			}
		}
	}
	return false
}

func (f *Frame) havocLoopMem(li *loopInfo, st *execState) *Mem {
	e := f.e
	if !f.loopWrites(li) {
		return st.mem
	}
	if li.spec != nil && li.spec.Modifies != nil {
		m := st.mem
		sc := f.scopeAt(st, nil)
		for _, r := range li.spec.Modifies {
			lo, n := e.evalRegion(sc, r.Expr, r.Text)
			m = e.mc.HavocRange(m, lo, n, "loopmem")
		}
		return m
	}
	before := st.mem
	st2 := *st
	st2.mem = e.mc.HavocAll("loopmem")
	f.keepLocals(&st2, before, f.localsWrittenIn(li))
	return st2.mem
}

func (f *Frame) backEdge(n *xnode, li *loopInfo, st *execState, cond *Term) {
	e := f.e
	if len(f.unp) > 0 {
		st2 := *st
		st = &st2
		f.packAll(st)
	}
	{
		idx := predIndex(li.header, n.blk)
		for _, ins := range li.header.Instrs {
			phi, ok := ins.(*ssa.Phi)
			if !ok {
				break
			}
			if phi.Comment == "rangeindex" {
				v := f.operand(st.env, phi.Edges[idx]).(Scalar).T
				st2 := *st
				f.oblige(&st2, "invariant", fmt.Sprintf("L%d.rangeindex.preserved", li.ordinal), cond,
					f.rangeInv(st.env, phi, v), n.blk.Instrs[len(n.blk.Instrs)-1].Pos(), "range index stays in [-1, len)")
			}
		}
	}
	if li.spec == nil {
		return
	}
	// bind header phis to the values flowing along this back edge
	over := map[ssa.Value]Val{}
	idx := predIndex(li.header, n.blk)
	for _, ins := range li.header.Instrs {
		phi, ok := ins.(*ssa.Phi)
		if !ok {
			break
		}
		over[phi] = f.operand(st.env, phi.Edges[idx])
	}
	// ghost variables take their updated values (computed in the state at the
	// back edge, with the header values of all ghosts)
	saved := map[string]SV{}
	if len(li.spec.Ghosts) > 0 {
		// loop variables denote their values at the loop head; next(x) is
		// the value flowing along the back edge
		usc := f.scopeAt(st, nil)
		usc.nextLookup = f.scopeAt(st, over).golookup
		next := map[string]SV{}
		for _, g := range li.spec.Ghosts {
			usc.goal = false
			usc.what = g.Update.Text
			next[g.Name] = usc.coerceParam(usc.eval(g.Update.Expr), g.Type, "ghost "+g.Name)
		}
		for k, v := range next {
			saved[k] = f.ghostVals[k]
			f.ghostVals[k] = v
		}
	}
	defer func() {
		for k, v := range saved {
			f.ghostVals[k] = v
		}
	}()
	sc := f.scopeAt(st, over)
	sc.loopEntryMem = f.loopEntry[li]
	sc.loopEntryGh = f.loopEntryGh[li]
	st2 := *st
	for _, iv := range li.spec.Inv {
		sc.goal = true
		g := e.evalBool(sc, iv.Expr, iv.Text)
		f.oblige(&st2, "invariant", fmt.Sprintf("L%d.%s.preserved", li.ordinal, iv.Label), cond, g, n.blk.Instrs[len(n.blk.Instrs)-1].Pos(), "loop invariant preserved: "+iv.Text)
	}
	if li.spec.Decreases != nil {
		sc.goal = true
		v := e.evalInt(sc, li.spec.Decreases, li.spec.DecreasesText)
		old := f.decHead[li]
		tb := e.tb
		g := tb.And(tb.Slt(v, old), tb.Sle(tb.ConstU(0, v.sort.W), old))
		f.oblige(&st2, "decreases", fmt.Sprintf("L%d", li.ordinal), cond, g, n.blk.Instrs[len(n.blk.Instrs)-1].Pos(), "loop variant decreases and is bounded below: "+li.spec.DecreasesText)
	}
}

// ---------------------------------------------------------------------------
// block execution

func (f *Frame) execBlock(n *xnode, st *execState) {
	e := f.e
	tb := e.tb
	f.curBlock = n.blk
	for _, ins := range n.blk.Instrs {
		if st.reach.IsFalse() {
			return
		}
		switch x := ins.(type) {
		case *ssa.Phi, *ssa.DebugRef:
			// handled in mergeIn / name table
		case *ssa.If:
			c := f.operand(st.env, x.Cond).(Scalar).T
			f.edgeUnder(n, st, n.blk.Succs[0], tb.And(st.reach, c), c)
			f.edgeUnder(n, st, n.blk.Succs[1], tb.And(st.reach, tb.Not(c)), tb.Not(c))
			return
		case *ssa.Jump:
			f.edge(n, st, n.blk.Succs[0], st.reach)
			return
		case *ssa.Return:
			f.runDefers(st)
			if f.top && len(f.unp) > 0 {
				f.packAll(st)
			}
			vals := make([]Val, len(x.Results))
			for i, r := range x.Results {
				vals[i] = f.operand(st.env, r)
			}
			f.rets = append(f.rets, retRec{cond: st.reach, vals: vals, env: st.env, blk: n.blk, mem: st.mem, gh: st.gh, st: st.st})
			f.retPos = x.Pos()
			return
		case *ssa.Panic:
			if f.isDeclaredPanic(st, x) {
				return
			}
			f.oblige(st, "safety", "panic", st.reach, tb.False(), x.Pos(), "explicit panic must be unreachable")
			return
		case *ssa.RunDefers:
			// executed at Return
		case *ssa.Defer:
			f.defers = append(f.defers, x)
			st.env[deferKey{x}] = Scalar{st.reach}
		case *ssa.Store:
			if fr, ok := f.operand(st.env, x.Addr).(FieldRefV); ok {
				obj := st.env[unpackKey{fr.o}]
				st.env[unpackKey{fr.o}] = setPath(obj, fr.path, f.operand(st.env, x.Val))
				continue
			}
			addr := f.operand(st.env, x.Addr).(Scalar).T
			f.nilCheck(st, x.Addr, addr, x.Pos())
			v := f.operand(st.env, x.Val)
			t := x.Val.Type()
			f.frameCheck(st, addr, tb.ConstU(uint64(sizes.Sizeof(t)), 64), x.Pos(), "store")
			st.mem = e.store(st.mem, addr, t, v)
		case ssa.Value:
			if call, ok := x.(*ssa.Call); ok && f.con != nil && len(f.con.Ats) > 0 {
				f.atCall(st, call, false)
			}
			v := f.execValue(n, st, x)
			if call, ok := x.(*ssa.Call); ok && f.con != nil && len(f.con.Afters) > 0 && v != nil {
				f.afterCall(st, call, v)
			}
			if call, ok := x.(*ssa.Call); ok && f.con != nil && len(f.con.Ats) > 0 {
				f.atCall(st, call, true)
			}
			if v != nil {
				st.env[x] = v
				if watch[f.fn.Name()+":"+x.Name()] {
					f.e.addInputs("watch."+x.Name()+n.ctx, v)
				}
			}
		case *ssa.MapUpdate:
			if f.con != nil && len(f.con.Ats) > 0 {
				f.atMapUpdate(st, x)
			}
			e.noteAbstract(f, "map update")
		case *ssa.Go, *ssa.Send:
			panic(fmt.Sprintf("%s: unsupported instruction %T", f.fn.Name(), ins))
		default:
			panic(fmt.Sprintf("%s: unsupported instruction %T", f.fn.Name(), ins))
		}
	}
}

// ---------------------------------------------------------------------------
// Unpacked receivers. For a pointer parameter named in an "unpack" clause the
// pointee struct is kept as a value in the execution state: field loads and
// stores become register operations; the struct is written back to memory
// ("packed") before every call that receives the pointer and at every return,
// and re-read afterwards. This is sound under the aliasing discipline that the
// object's memory is accessed only through that parameter inside the function
// (recorded as an assumption).

type unpObj struct {
	name string
	base *Term
	et   types.Type
}

type unpackKey struct{ o *unpObj }

func (unpackKey) Name() string                  { return "unpacked" }
func (unpackKey) String() string                { return "unpacked" }
func (unpackKey) Type() types.Type              { return nil }
func (unpackKey) Parent() *ssa.Function         { return nil }
func (unpackKey) Referrers() *[]ssa.Instruction { return nil }
func (unpackKey) Pos() token.Pos                { return token.NoPos }

// FieldRefV designates a field (path) of an unpacked object.
type FieldRefV struct {
	o    *unpObj
	path []int
	typ  types.Type // type of the designated field
}

// unpackedAt: does the pointer value v designate an unpacked object? Decided
// on the (hash-consed) pointer term, so that inlined callees that receive the
// pointer operate on the unpacked object too.
func (f *Frame) unpackedAt(v Val) (*unpObj, bool) {
	if len(f.unp) == 0 {
		return nil, false
	}
	s, ok := v.(Scalar)
	if !ok {
		return nil, false
	}
	for _, o := range f.unp {
		if o.base == s.T {
			return o, true
		}
	}
	return nil, false
}

func getPath(v Val, path []int) Val {
	for _, i := range path {
		v = v.(StructV).Fields[i]
	}
	return v
}

func setPath(v Val, path []int, nv Val) Val {
	if len(path) == 0 {
		return nv
	}
	sv := v.(StructV)
	fs := append([]Val{}, sv.Fields...)
	fs[path[0]] = setPath(fs[path[0]], path[1:], nv)
	return StructV{fs}
}

// packAll writes every unpacked object back to memory, as one region whose
// bytes come from a scratch memory holding the object: a read at an address
// outside the object is then guarded by a single range test instead of one
// equality per stored byte.
func (f *Frame) packAll(st *execState) {
	e := f.e
	for _, o := range f.unp {
		obj, ok := st.env[unpackKey{o}]
		if !ok {
			continue
		}
		stt, isStruct := o.et.Underlying().(*types.Struct)
		sv, isSV := obj.(StructV)
		if !isStruct || !isSV {
			inner := e.store(st.mem, o.base, o.et, obj)
			st.mem = e.mc.Region(st.mem, o.base, e.tb.ConstU(uint64(sizes.Sizeof(o.et)), 64), inner)
			continue
		}
		// only the fields whose value differs from what memory holds are
		// written (padding and untouched fields keep their bytes)
		offs := structOffsets(stt)
		inner := st.mem
		changed := false
		for i := 0; i < stt.NumFields(); i++ {
			ft := stt.Field(i).Type()
			addr := e.tb.Add(o.base, e.tb.ConstU(uint64(offs[i]), 64))
			if sameVal(sv.Fields[i], e.load(st.mem, addr, ft)) {
				continue
			}
			inner = e.store(inner, addr, ft, sv.Fields[i])
			changed = true
		}
		if changed {
			f.frameCheck(st, o.base, e.tb.ConstU(uint64(sizes.Sizeof(o.et)), 64), f.fn.Pos(), "unpacked "+o.name+" written back")
			st.mem = e.mc.Region(st.mem, o.base, e.tb.ConstU(uint64(sizes.Sizeof(o.et)), 64), inner)
		}
	}
}

// unpackAll (re)loads every unpacked object from memory.
func (f *Frame) unpackAll(st *execState) {
	e := f.e
	tb := e.tb
	if st.reach == nil {
		st.reach = tb.True()
	}
	for _, o := range f.unp {
		v := e.load(st.mem, o.base, o.et)
		st.env[unpackKey{o}] = v
		// typed memory: slice and string headers satisfy 0 <= len (<= cap),
		// as for every load of such a value
		var walk func(v Val)
		walk = func(v Val) {
			switch s := v.(type) {
			case SliceV:
				e.assume(tb.Implies(st.reach, tb.And(tb.Sle(tb.ConstU(0, 64), s.Len), tb.Sle(s.Len, s.Cap), tb.Ule(s.Cap, tb.ConstU(addrLimit, 64)))))
			case StringV:
				e.assume(tb.Implies(st.reach, tb.And(tb.Sle(tb.ConstU(0, 64), s.Len), tb.Ule(s.Len, tb.ConstU(addrLimit, 64)))))
			case StructV:
				for _, fv := range s.Fields {
					walk(fv)
				}
			}
		}
		walk(v)
	}
}

// packedCall runs a call that is not inlined: if it may receive an unpacked
// object (directly as an argument, or in an unknown way), the objects are in
// memory for the duration of the call.
func (f *Frame) packedCall(st *execState, args []Val, always bool, call func() Val) Val {
	if len(f.unp) == 0 {
		return call()
	}
	need := always
	for _, a := range args {
		if _, isFn := a.(FuncV); isFn {
			need = true // a closure may have captured the pointer
		}
		mapVal(a, func(t *Term) *Term {
			for _, o := range f.unp {
				if t == o.base {
					need = true
				}
				if t.op == "bvadd" {
					for _, m := range t.args {
						if m == o.base {
							need = true
						}
					}
				}
			}
			return t
		})
	}
	if !need {
		return call()
	}
	f.packAll(st)
	r := call()
	f.unpackAll(st)
	return r
}

// ghostKey is the environment key of a name bound by an "after call" clause.
type ghostKey struct{ name string }

func (ghostKey) Name() string                  { return "ghost" }
func (ghostKey) String() string                { return "ghost" }
func (ghostKey) Type() types.Type              { return nil }
func (ghostKey) Parent() *ssa.Function         { return nil }
func (ghostKey) Referrers() *[]ssa.Instruction { return nil }
func (ghostKey) Pos() token.Pos                { return token.NoPos }

// afterInstr finds the call an "after call" clause is attached to and the type
// of the result it names.
func (f *Frame) afterInstr(ac AfterClause) (*ssa.Call, types.Type) {
	f.atCallOrdinals()
	for _, b := range f.fn.Blocks {
		for _, ins := range b.Instrs {
			c, ok := ins.(*ssa.Call)
			if !ok || calleeName(c) != ac.Callee || f.callOrd[c] != ac.Nth {
				continue
			}
			rt := c.Type()
			if tt, ok := rt.(*types.Tuple); ok {
				if ac.Result >= tt.Len() {
					panic(specError{"after call: no such result"})
				}
				rt = tt.At(ac.Result).Type()
			}
			return c, rt
		}
	}
	panic(specError{"after call: no call " + ac.Callee + " with that ordinal"})
}

func (f *Frame) afterCall(st *execState, call *ssa.Call, v Val) {
	f.atCallOrdinals()
	name := calleeName(call)
	if os.Getenv("GOVC_DEBUG") != "" {
		fmt.Fprintf(os.Stderr, "afterCall %s ord=%d afters=%v\n", name, f.callOrd[call], f.con.Afters)
	}
	for _, ac := range f.con.Afters {
		if ac.Callee != name || ac.Nth != f.callOrd[call] {
			continue
		}
		var rv Val = v
		var rt types.Type = call.Type()
		if tv, ok := v.(TupleV); ok {
			if ac.Result >= len(tv.Elems) {
				panic(specError{"after call: no such result"})
			}
			rv = tv.Elems[ac.Result]
			rt = call.Type().(*types.Tuple).At(ac.Result).Type()
		}
		st.env[ghostKey{ac.Name}] = rv
		f.boundTypes[ac.Name] = rt
	}
}

func calleeName(call *ssa.Call) string {
	if call.Call.IsInvoke() {
		return call.Call.Method.Name()
	}
	switch c := call.Call.Value.(type) {
	case *ssa.Function:
		return c.Name()
	case *ssa.Builtin:
		return c.Name()
	case *ssa.Parameter:
		return c.Name() // a call through a function-typed parameter is named after the parameter
	}
	if call.Call.IsInvoke() {
		return call.Call.Method.Name()
	}
	return ""
}

func (f *Frame) atCallOrdinals() {
	if f.callOrd != nil {
		return
	}
	f.callOrd = map[*ssa.Call]int{}
	cnt := map[string]int{}
	for _, b := range f.fn.Blocks {
		for _, ins := range b.Instrs {
			if c, ok := ins.(*ssa.Call); ok {
				n := calleeName(c)
				cnt[n]++
				f.callOrd[c] = cnt[n]
			}
		}
	}
}

// atCall processes "at call" clauses attached to this call instruction.
func (f *Frame) atCall(st *execState, call *ssa.Call, after bool) {
	name := calleeName(call)
	if name == "" {
		return
	}
	f.atCallOrdinals()
	f.atSite(st, name, f.callOrd[call], call.Block(), call.Call.Args, call.Pos(), after)
}

// atMapUpdate processes "at call mapupdate#n" clauses: the n-th map assignment
// (in block order) is a program point like a call, with the map, the key and
// the stored value visible as arg0, arg1, arg2.
func (f *Frame) atMapUpdate(st *execState, mu *ssa.MapUpdate) {
	ord := 0
	for _, b := range f.fn.Blocks {
		for _, ins := range b.Instrs {
			if m, ok := ins.(*ssa.MapUpdate); ok {
				ord++
				if m == mu {
					f.atSite(st, "mapupdate", ord, mu.Block(), []ssa.Value{mu.Map, mu.Key, mu.Value}, mu.Pos(), false)
					return
				}
			}
		}
	}
}

func (f *Frame) atSite(st *execState, name string, ord int, blk *ssa.BasicBlock, siteArgs []ssa.Value, pos token.Pos, after bool) {
	e := f.e
	for _, ac := range f.con.Ats {
		if ac.Callee != name || ac.After != after {
			continue
		}
		if ac.Loop > 0 {
			if ac.Loop > len(f.loops) || !f.loops[ac.Loop-1].body[blk] {
				continue
			}
		} else if ac.Nth != ord {
			continue
		}
		// "@C08 expr": the clause belongs to the named properties only
		if len(ac.C.Props) > 0 && e.w.property != "" {
			found := false
			for _, p := range ac.C.Props {
				if p == e.w.property {
					found = true
				}
			}
			if !found {
				continue
			}
		}
		// clauses speak about memory: unpacked objects are written back into a
		// scratch copy of the state for their evaluation
		stv := st
		if len(f.unp) > 0 {
			cp := *st
			stv = &cp
			f.packAll(stv)
		}
		sc := f.scopeAt(stv, nil)
		// the call's own arguments are visible as arg0, arg1, ...
		for i, a := range siteArgs {
			sc.vars[fmt.Sprintf("arg%d", i)] = e.svOf(f.operand(st.env, a), a.Type())
		}
		if ac.Assume {
			sc.goal = false
			g := e.evalBool(sc, ac.C.Expr, ac.C.Text)
			e.assume(e.tb.Implies(st.reach, g))
			e.trusted["assumed at call "+name+" in "+fnName(f.fn)+": "+ac.C.Text] = true
			continue
		}
		if ac.Rewrite == "" {
			sc.goal = true
			g := e.evalBool(sc, ac.C.Expr, ac.C.Text)
			f.oblige(st, "assert", ac.C.Label, st.reach, g, pos, "intermediate assertion: "+ac.C.Text)
			f.markSplit()
			e.assume(e.tb.Implies(st.reach, g))
			continue
		}
		// rewrite: prove current value == expr, then continue with expr
		cur, ok := sc.lookup(ac.Rewrite)
		if !ok || cur.k != kInt {
			panic(specError{fmt.Sprintf("rewrite: no integer variable %q at this point", ac.Rewrite)})
		}
		sc.goal = true
		sc.what = ac.C.Text
		nv := sc.eval(ac.C.Expr)
		nt := sc.toInt(nv, cur.t.sort.W, cur.signed)
		f.oblige(st, "assert", ac.C.Label, st.reach, e.tb.Eq(cur.t, nt), pos, "rewrite "+ac.Rewrite+" := "+ac.C.Text)
		f.markSplit()
		// substitute in the environment: every SSA value currently bound to the old term
		for k, v := range st.env {
			if s, ok := v.(Scalar); ok && s.T == cur.t {
				st.env[k] = Scalar{nt}
			}
		}
	}
}

// markSplit applies the function's case split to the obligation just emitted.
func (f *Frame) markSplit() {
	e := f.e
	if len(e.obls) > 0 && f.top {
		if o := e.obls[len(e.obls)-1]; o.Kind == "assert" && !o.Goal.IsTrue() {
			o.Splits = e.topSplits
		}
	}
}

var watch = func() map[string]bool {
	m := map[string]bool{}
	for _, w := range strings.Split(os.Getenv("GOVC_WATCH"), ",") {
		if w != "" {
			m[w] = true
		}
	}
	return m
}()

type deferKey struct{ d *ssa.Defer }

func (deferKey) Name() string                  { return "defer" }
func (deferKey) String() string                { return "defer" }
func (deferKey) Type() types.Type              { return nil }
func (deferKey) Parent() *ssa.Function         { return nil }
func (deferKey) Referrers() *[]ssa.Instruction { return nil }
func (deferKey) Pos() token.Pos                { return token.NoPos }

func (f *Frame) runDefers(st *execState) {
	// deferred calls run LIFO; they are treated as calls at the return point,
	// guarded by whether the defer statement was reached on this path.
	for i := len(f.defers) - 1; i >= 0; i-- {
		d := f.defers[i]
		r, ok := st.env[deferKey{d}]
		if !ok {
			continue
		}
		_ = r
		f.e.noteAbstract(f, "deferred call "+d.Call.String())
		f.deferredCall(st, d)
	}
}

// literalsOf collects the atoms a condition fixes: c = l1 && ... && lk gives
// each li its truth value; !(a || b) fixes a and b to false.
func (e *Engine) literalsOf(c *Term, pos bool, out map[*Term]*Term) {
	tb := e.tb
	switch {
	case c.op == "not":
		e.literalsOf(c.args[0], !pos, out)
	case c.op == "and" && pos, c.op == "or" && !pos:
		for _, a := range c.args {
			e.literalsOf(a, pos, out)
		}
	case c.IsTrue() || c.IsFalse():
	default:
		out[c] = tb.BoolC(pos)
	}
}

// edgeUnder is edge for a conditional branch: values flowing along the edge
// are simplified under the branch condition (ite(c, x, y) becomes x where c is
// known), which keeps merged results of inlined calls from accumulating
// case distinctions that the path has already decided.
func (f *Frame) edgeUnder(n *xnode, st *execState, v *ssa.BasicBlock, cond, branch *Term) {
	if cond.IsFalse() {
		return
	}
	lits := map[*Term]*Term{}
	f.e.literalsOf(branch, true, lits)
	if len(lits) == 0 {
		f.edge(n, st, v, cond)
		return
	}
	tb := f.e.tb
	cache := map[int]*Term{}
	sub := func(t *Term) *Term { return tb.SubstC(t, lits, cache) }
	env2 := make(map[ssa.Value]Val, len(st.env))
	for k, val := range st.env {
		env2[k] = mapVal(val, sub)
	}
	st2 := *st
	st2.env = env2
	if st.gh != nil {
		g2 := &Ghost{sc: map[string]*Term{}, mm: st.gh.mm}
		for k, t := range st.gh.sc {
			g2.sc[k] = sub(t)
		}
		st2.gh = g2
	}
	f.edge(n, &st2, v, cond)
}

func mapVal(v Val, f func(*Term) *Term) Val {
	switch x := v.(type) {
	case Scalar:
		return Scalar{f(x.T)}
	case SliceV:
		return SliceV{f(x.Ptr), f(x.Len), f(x.Cap)}
	case StringV:
		return StringV{f(x.Ptr), f(x.Len)}
	case IfaceV:
		return IfaceV{f(x.Typ), f(x.Data)}
	case TupleV:
		r := make([]Val, len(x.Elems))
		for i, el := range x.Elems {
			r[i] = mapVal(el, f)
		}
		return TupleV{r}
	case StructV:
		r := make([]Val, len(x.Fields))
		for i, el := range x.Fields {
			r[i] = mapVal(el, f)
		}
		return StructV{r}
	case ArrayV:
		r := make([]Val, len(x.Elems))
		for i, el := range x.Elems {
			r[i] = mapVal(el, f)
		}
		return ArrayV{r}
	}
	return v
}

func (f *Frame) edge(n *xnode, st *execState, v *ssa.BasicBlock, cond *Term) {
	if cond.IsFalse() {
		return
	}
	t, kind, li := f.succTarget(n, v)
	switch kind {
	case "back":
		f.backEdge(n, li, st, cond)
		return
	case "unwind":
		mode, k := li.mode()
		if mode == lmUnroll {
			f.oblige(st, "unwind", fmt.Sprintf("L%d", li.ordinal), cond, f.e.tb.False(), n.blk.Instrs[len(n.blk.Instrs)-1].Pos(),
				fmt.Sprintf("loop %d needs at most %d iterations", li.ordinal, k))
		} else {
			f.e.boundedLoops[fmt.Sprintf("%s loop %d", fnName(f.fn), li.ordinal)] = k
		}
		return
	}
	env := st.env
	// environments are persistent by copy: a block with two successors shares
	// the map, so copy when the target may extend it
	cp := make(map[ssa.Value]Val, len(env)+8)
	for k, v := range env {
		cp[k] = v
	}
	fl := st.st
	if li2 := f.loopOf[v]; li2 != nil {
		if mode, _ := li2.mode(); mode == lmBounded {
			fl.bounded = true
		}
	}
	t.in = append(t.in, edgeIn{cond: cond, env: cp, mem: st.mem, gh: st.gh, from: n.blk, st: fl})
}

// operand evaluates an SSA operand in env.
func (f *Frame) operand(env map[ssa.Value]Val, v ssa.Value) Val {
	e := f.e
	switch x := v.(type) {
	case *ssa.Const:
		return e.constVal(x)
	case *ssa.Global:
		return Scalar{e.globalAddr(x)}
	case *ssa.Function:
		return FuncV{Fn: x, Handle: e.fnHandle(x)}
	case *ssa.Builtin:
		return FuncV{Fn: x}
	}
	if r, ok := env[v]; ok {
		return r
	}
	panic(fmt.Sprintf("%s: value %s (%T) not in environment", f.fn.Name(), v.Name(), v))
}

func (e *Engine) fnHandle(fn *ssa.Function) *Term {
	if t, ok := e.fnHandles[fn]; ok {
		return t
	}
	t := e.tb.ConstU(uint64(0x7f0000000000+len(e.fnHandles)*16), 64)
	e.fnHandles[fn] = t
	return t
}

func (e *Engine) typeConst(t types.Type) *Term {
	k := types.TypeString(t, nil)
	if c, ok := e.typeIDs[k]; ok {
		return c
	}
	c := e.tb.ConstU(uint64(0x7e0000000000+(len(e.typeIDs)+1)*64), 64)
	e.typeIDs[k] = c
	e.typeByID[c] = t
	return c
}

func (e *Engine) globalAddr(g *ssa.Global) *Term {
	name := "glob!" + shortName(g.String())
	if t, ok := e.tb.vars[sanitize(name)]; ok {
		return t
	}
	t := e.tb.Var(name, BV(64))
	e.assume(e.tb.Ult(e.tb.ConstU(4096, 64), t))
	e.assume(e.tb.Ult(t, e.tb.ConstU(preLimit-(1<<32), 64)))
	e.globals[t] = g
	e.importGlobal(g, t)
	return t
}

func (e *Engine) constVal(c *ssa.Const) Val {
	tb := e.tb
	t := c.Type()
	if c.Value == nil {
		return e.zeroVal(t)
	}
	switch u := t.Underlying().(type) {
	case *types.Basic:
		switch {
		case u.Info()&types.IsBoolean != 0:
			return Scalar{tb.BoolC(constant.BoolVal(c.Value))}
		case u.Info()&types.IsString != 0:
			return e.stringConst(constant.StringVal(c.Value))
		case u.Info()&types.IsInteger != 0:
			v, ok := new(big.Int).SetString(c.Value.ExactString(), 10)
			if !ok {
				// e.g. 1e4 typed as int64
				if iv := constant.ToInt(c.Value); iv.Kind() == constant.Int {
					v, _ = new(big.Int).SetString(iv.ExactString(), 10)
				} else {
					panic("bad int const " + c.Value.ExactString())
				}
			}
			return Scalar{tb.Const(v, bitsOf(t))}
		case u.Info()&types.IsFloat != 0:
			return Scalar{e.floatConst(c.Value, bitsOf(t))}
		}
	}
	panic(fmt.Sprintf("constVal: unsupported constant %s of type %s", c, t))
}

func (e *Engine) stringConst(s string) Val {
	tb := e.tb
	if s == "" {
		return StringV{tb.ConstU(0, 64), tb.ConstU(0, 64)}
	}
	if p, ok := e.strConsts[s]; ok {
		return StringV{p, tb.ConstU(uint64(len(s)), 64)}
	}
	p := tb.Fresh(fmt.Sprintf("str!%d", len(e.strConsts)), BV(64))
	e.strConsts[s] = p
	bs := make([]*Term, len(s))
	for i := 0; i < len(s); i++ {
		bs[i] = tb.ConstU(uint64(s[i]), 8)
	}
	e.rom[p] = bs
	e.assume(tb.Ult(tb.ConstU(4096, 64), p))
	e.assume(tb.Ult(p, tb.ConstU(preLimit-(1<<32), 64)))
	return StringV{p, tb.ConstU(uint64(len(s)), 64)}
}

// readByte reads memory, resolving read-only regions (string constants,
// imported global tables) first.
func (e *Engine) romLookup(a *Term) (*Term, bool) {
	tb := e.tb
	l := tb.toLin(a)
	var rv, idx *Term
	for i, at := range l.atoms {
		if _, ok := e.rom[at]; ok && l.coef[i].Cmp(bigOne) == 0 {
			rv = at
			rest := lin{w: l.w, c: l.c}
			rest.atoms = append(append([]*Term{}, l.atoms[:i]...), l.atoms[i+1:]...)
			rest.coef = append(append([]*big.Int{}, l.coef[:i]...), l.coef[i+1:]...)
			idx = tb.fromLin(rest)
			break
		}
	}
	if rv == nil {
		return nil, false
	}
	bs := e.rom[rv]
	if idx.IsConst() {
		if idx.val.IsUint64() && idx.val.Uint64() < uint64(len(bs)) {
			return bs[idx.val.Uint64()], true
		}
		return nil, false
	}
	if len(bs) > 4096 {
		return nil, false
	}
	// table lookup
	r := tb.Select(e.romFallback(), a)
	for i := len(bs) - 1; i >= 0; i-- {
		r = tb.Ite(tb.Eq(idx, tb.ConstU(uint64(i), 64)), bs[i], r)
	}
	return r, true
}

func (e *Engine) romFallback() *Term { return e.tb.ArrVar("rom!oob") }

// keepLocals: an unknown callee (or an unannotated loop) cannot touch the
// function's non-escaping local variables (go/ssa marks them Heap == false:
// their address never leaves the function). After memory has been havoc'd as
// a whole, their contents are restored from the memory before. skip lists
// locals that must not be restored (written in the loop being cut).
func (f *Frame) keepLocals(st *execState, before *Mem, skip map[*ssa.Alloc]bool) {
	e := f.e
	env := st.env
	for g := f; g != nil; g = g.parent {
		for _, b := range g.fn.Blocks {
			for _, ins := range b.Instrs {
				a, ok := ins.(*ssa.Alloc)
				if !ok || a.Heap || (g == f && skip[a]) {
					continue
				}
				pv, ok := env[a]
				if !ok {
					continue
				}
				et := a.Type().Underlying().(*types.Pointer).Elem()
				sz := sizes.Sizeof(et)
				if sz <= 0 || sz > 4096 {
					continue
				}
				st.mem = e.mc.Region(st.mem, pv.(Scalar).T, e.tb.ConstU(uint64(sz), 64), before)
			}
		}
		// captured variables (closure cells) of an abstracted function: unknown
		// callees are assumed not to reach them (recorded as an assumption)
		if g.con != nil && g.con.Abstracted && len(g.fn.FreeVars) > 0 {
			for _, fv := range g.fn.FreeVars {
				pv, ok := env[fv]
				pt, isPtr := fv.Type().Underlying().(*types.Pointer)
				if !ok || !isPtr {
					continue
				}
				sz := sizes.Sizeof(pt.Elem())
				if s, isS := pv.(Scalar); isS && sz > 0 && sz <= 4096 {
					st.mem = e.mc.Region(st.mem, s.T, e.tb.ConstU(uint64(sz), 64), before)
				}
			}
			e.trusted["captured variables of "+fnName(g.fn)+" are not modified by the unmodelled functions it calls"] = true
		}
		// the locals of the frames this one is inlined into are out of reach too
		env = g.parentEnv
		if env == nil {
			break
		}
	}
}

// localsWrittenIn: local allocations that some store in the loop body may
// target (the store address is derived from the allocation).
func (f *Frame) localsWrittenIn(li *loopInfo) map[*ssa.Alloc]bool {
	out := map[*ssa.Alloc]bool{}
	var root func(v ssa.Value, depth int) *ssa.Alloc
	root = func(v ssa.Value, depth int) *ssa.Alloc {
		if depth > 8 {
			return nil
		}
		switch x := v.(type) {
		case *ssa.Alloc:
			return x
		case *ssa.FieldAddr:
			return root(x.X, depth+1)
		case *ssa.IndexAddr:
			return root(x.X, depth+1)
		case *ssa.Convert:
			return root(x.X, depth+1)
		case *ssa.ChangeType:
			return root(x.X, depth+1)
		case *ssa.Slice:
			return root(x.X, depth+1)
		}
		return nil
	}
	unknown := false
	for b := range li.body {
		for _, ins := range b.Instrs {
			if s, ok := ins.(*ssa.Store); ok {
				if a := root(s.Addr, 0); a != nil {
					out[a] = true
				} else if _, isParam := s.Addr.(*ssa.Parameter); !isParam {
					// a store through a computed pointer: it cannot reach a
					// non-escaping local unless derived from it, which root() follows;
					// pointers loaded from memory never point to such locals
				}
			}
			_ = unknown
		}
	}
	return out
}

// localByName resolves a source name of an address-taken local; "name__k"
// selects the k-th local of that name (1-based, in block order).
func (f *Frame) localByName(name string) *ssa.Alloc {
	if a := f.addrNames[name]; a != nil {
		return a
	}
	if i := strings.LastIndex(name, "__"); i > 0 {
		var k int
		if _, err := fmt.Sscanf(name[i+2:], "%d", &k); err == nil && k >= 1 {
			if as := f.addrAll[name[:i]]; k <= len(as) {
				return as[k-1]
			}
		}
	}
	return nil
}
