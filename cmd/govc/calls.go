package main

// Calls: builtins, intrinsic models of stdlib functions, modular use of callee
// contracts, inlining, and havoc for everything else.

import (
	"os"
	"fmt"
	"go/ast"
	"go/token"
	"go/types"
	"strings"

	"golang.org/x/tools/go/ssa"
)

// externals that neither write caller-visible memory nor retain arguments.
var pureExternals = map[string]bool{
	"fmt.Errorf": true, "errors.New": true, "fmt.Sprintf": true, "fmt.Sprint": true,
	"strconv.Itoa": true, "strconv.Quote": true, "strconv.FormatInt": true, "strconv.FormatUint": true,
	"(reflect.Type).String": true, "(reflect.Type).Kind": true, "(reflect.Type).Size": true, "(reflect.Type).Name": true,
	"(*reflect.rtype).String": true, "(*reflect.rtype).Kind": true,
}

func (f *Frame) callIsPure(c *ssa.Call) bool {
	e := f.e
	switch callee := c.Call.Value.(type) {
	case *ssa.Builtin:
		switch callee.Name() {
		case "len", "cap", "min", "max", "ssa:wrapnilchk", "Add", "StringData", "SliceData", "String", "Slice":
			return true
		}
		return false
	case *ssa.Function:
		if c.Call.IsInvoke() {
			return false
		}
		name := fnName(callee)
		if _, ok := intrinsics[name]; ok {
			return intrinsicPure[name]
		}
		if pureExternals[name] {
			return true
		}
		if con := e.contractFor(name); con != nil {
			if con.HasMod && len(con.Modifies) == 0 {
				return true
			}
			if !con.Inline {
				return false
			}
		}
		return e.bodyIsPure(callee, 0)
	}
	return false
}

// bodyIsPure: the function body contains no store to non-local memory and
// only pure calls (conservative syntactic check).
func (e *Engine) bodyIsPure(fn *ssa.Function, depth int) bool {
	if r, ok := e.pureCache[fn]; ok {
		return r
	}
	if len(fn.Blocks) == 0 || depth > 4 {
		return false
	}
	e.pureCache[fn] = false // recursion guard
	pure := true
	for _, b := range fn.Blocks {
		for _, ins := range b.Instrs {
			switch x := ins.(type) {
			case *ssa.Store:
				if !isLocalAddr(x.Addr) {
					pure = false
				}
			case *ssa.MapUpdate, *ssa.Send, *ssa.Go, *ssa.Defer:
				pure = false
			case *ssa.Call:
				switch callee := x.Call.Value.(type) {
				case *ssa.Builtin:
					switch callee.Name() {
					case "len", "cap", "min", "max", "ssa:wrapnilchk", "Add", "StringData", "SliceData", "String", "Slice":
					default:
						pure = false
					}
				case *ssa.Function:
					if x.Call.IsInvoke() {
						pure = false
						break
					}
					name := fnName(callee)
					if _, ok := intrinsics[name]; ok {
						if !intrinsicPure[name] {
							pure = false
						}
					} else if pureExternals[name] {
					} else if !e.bodyIsPure(callee, depth+1) {
						pure = false
					}
				default:
					pure = false
				}
			}
		}
	}
	e.pureCache[fn] = pure
	return pure
}

func isLocalAddr(v ssa.Value) bool {
	switch x := v.(type) {
	case *ssa.Alloc:
		return !x.Heap
	case *ssa.FieldAddr:
		return isLocalAddr(x.X)
	case *ssa.IndexAddr:
		return isLocalAddr(x.X)
	}
	return false
}

func (f *Frame) call(st *execState, x *ssa.Call) Val {
	return f.callCommon(st, &x.Call, x.Type(), x.Pos(), x.Name())
}

func (f *Frame) deferredCall(st *execState, d *ssa.Defer) {
	var rt types.Type
	if sig, ok := d.Call.Value.Type().Underlying().(*types.Signature); ok && !d.Call.IsInvoke() {
		rt = sig.Results()
	}
	f.callCommon(st, &d.Call, rt, d.Pos(), "defer")
}

func (f *Frame) callCommon(st *execState, c *ssa.CallCommon, rtype types.Type, pos token.Pos, hint string) Val {
	e := f.e
	args := make([]Val, len(c.Args))
	for i, a := range c.Args {
		args[i] = f.operand(st.env, a)
		if _, bad := args[i].(FieldRefV); bad {
			panic(specError{"the address of a field of an unpacked object is passed to a call in " + fnName(f.fn)})
		}
	}
	if c.IsInvoke() {
		recv := f.operand(st.env, c.Value)
		name := "(" + shortName(types.TypeString(c.Value.Type(), nil)) + ")." + c.Method.Name()
		all := append([]Val{recv}, args...)
		if con := e.contractFor(name); con != nil {
			return f.packedCall(st, all, true, func() Val {
				return f.modularCall(st, nil, name, con, c.Signature(), all, rtype, pos, hint, true)
			})
		}
		return f.packedCall(st, all, true, func() Val { return f.havocCall(st, name, all, rtype, hint, pos) })
	}
	switch callee := c.Value.(type) {
	case *ssa.Builtin:
		return f.builtin(st, callee, c, args, rtype, pos)
	case *ssa.Function:
		return f.staticCall(st, callee, args, nil, rtype, pos, hint)
	case *ssa.MakeClosure:
		fv := f.operand(st.env, callee).(FuncV)
		return f.staticCall(st, fv.Fn.(*ssa.Function), args, fv.Free, rtype, pos, hint)
	}
	fv, ok := f.operand(st.env, c.Value).(FuncV)
	if ok {
		if fn, ok := fv.Fn.(*ssa.Function); ok && fn != nil {
			return f.staticCall(st, fn, args, fv.Free, rtype, pos, hint)
		}
	}
	// call through a function-typed parameter: an assumed contract may be
	// declared for it as "param.<Function>.<parameter>"
	if pv, ok := c.Value.(*ssa.Parameter); ok {
		if con := e.contractFor("param." + f.fn.Name() + "." + pv.Name()); con != nil {
			return f.packedCall(st, args, true, func() Val {
				return f.modularCall(st, nil, con.Target, con, c.Signature(), args, rtype, pos, hint, false)
			})
		}
	}
	// call through a captured function variable (closures capture by reference:
	// the callee is a load from the free variable): "param.<Closure>.<variable>"
	if fvn := freeVarOf(c.Value); fvn != "" {
		if con := e.contractFor("param." + f.fn.Name() + "." + fvn); con != nil {
			return f.packedCall(st, args, true, func() Val {
				return f.modularCall(st, nil, con.Target, con, c.Signature(), args, rtype, pos, hint, false)
			})
		}
	}
	// call through a function value: field contract?
	if con := f.fieldContractFor(c.Value); con != nil {
		return f.packedCall(st, args, true, func() Val {
			return f.modularCall(st, nil, con.Target, con, c.Signature(), args, rtype, pos, hint, false)
		})
	}
	return f.packedCall(st, args, true, func() Val { return f.havocCall(st, "func value "+c.Value.Name(), args, rtype, hint, pos) })
}

// freeVarOf names the captured variable a callee value is loaded from.
func freeVarOf(v ssa.Value) string {
	switch x := v.(type) {
	case *ssa.FreeVar:
		return x.Name()
	case *ssa.UnOp:
		if fv, ok := x.X.(*ssa.FreeVar); ok && x.Op == token.MUL {
			return fv.Name()
		}
	}
	return ""
}

// contractOfCall resolves, without executing anything, the contract a call
// instruction would be treated with (nil: inlined or havoc'd).
func (f *Frame) contractOfCall(c *ssa.CallCommon) (*Contract, *ssa.Function) {
	e := f.e
	if c.IsInvoke() {
		return e.contractFor("(" + shortName(types.TypeString(c.Value.Type(), nil)) + ")." + c.Method.Name()), nil
	}
	switch callee := c.Value.(type) {
	case *ssa.Function:
		return e.contractFor(fnName(callee)), callee
	case *ssa.MakeClosure:
		fn := callee.Fn.(*ssa.Function)
		return e.contractFor(fnName(fn)), fn
	case *ssa.Parameter:
		return e.contractFor("param." + f.fn.Name() + "." + callee.Name()), nil
	}
	if fvn := freeVarOf(c.Value); fvn != "" {
		if con := e.contractFor("param." + f.fn.Name() + "." + fvn); con != nil {
			return con, nil
		}
	}
	return f.fieldContractFor(c.Value), nil
}

// movesTicks: may executing these blocks change the ghost progress counter?
// (a callee contract with "sets TICKS", also inside callees that are inlined)
func (f *Frame) movesTicks(blocks []*ssa.BasicBlock, depth int) bool {
	for _, b := range blocks {
		for _, ins := range b.Instrs {
			call, ok := ins.(*ssa.Call)
			if !ok {
				continue
			}
			con, fn := f.contractOfCall(&call.Call)
			if con != nil {
				for _, sc := range con.Sets {
					if sc.Ghost == "ticks" {
						return true
					}
				}
				if !con.Inline {
					continue
				}
			}
			if fn != nil && len(fn.Blocks) > 0 && depth < 4 {
				g := &Frame{e: f.e, fn: fn}
				if g.movesTicks(fn.Blocks, depth+1) {
					return true
				}
			}
		}
	}
	return false
}

// fieldContractFor: a call through a function-typed struct field T.f uses the
// contract declared for "T.f" if there is one.
func (f *Frame) fieldContractFor(v ssa.Value) *Contract {
	e := f.e
	switch x := v.(type) {
	case *ssa.UnOp:
		if fa, ok := x.X.(*ssa.FieldAddr); ok && x.Op == token.MUL {
			st := fa.X.Type().Underlying().(*types.Pointer).Elem()
			name := shortName(types.TypeString(st, nil)) + "." + st.Underlying().(*types.Struct).Field(fa.Field).Name()
			return e.contractFor("field " + name)
		}
	case *ssa.Field:
		st := x.X.Type()
		name := shortName(types.TypeString(st, nil)) + "." + st.Underlying().(*types.Struct).Field(x.Field).Name()
		return e.contractFor("field " + name)
	}
	return nil
}

func (f *Frame) staticCall(st *execState, fn *ssa.Function, args, free []Val, rtype types.Type, pos token.Pos, hint string) Val {
	e := f.e
	name := fnName(fn)
	if h, ok := intrinsics[name]; ok {
		return h(f, st, args, pos)
	}
	con := e.contractFor(name)
	if f.top && f.inlineSet == nil && f.con != nil && len(f.con.InlineCalls) > 0 {
		f.inlineSet = map[string]bool{}
		for _, n := range f.con.InlineCalls {
			f.inlineSet[n] = true
		}
	}
	forced := f.inlineSet[name]
	if os.Getenv("GOVC_DEBUG") != "" {
		fmt.Fprintf(os.Stderr, "staticCall %s forced=%v set=%v top=%v con=%v\n", name, forced, f.inlineSet, f.top, f.con != nil)
	}
	if forced && len(fn.Blocks) == 0 {
		forced = false
	}
	if con != nil && !con.Inline && !forced {
		return f.packedCall(st, append(append([]Val{}, args...), free...), false, func() Val {
			return f.modularCall(st, fn, name, con, fn.Signature, args, rtype, pos, hint, false)
		})
	}
	if pureExternals[name] {
		e.trusted["pure external: "+name] = true
		r := f.freshResult(st, name, rtype, hint)
		if name == "fmt.Errorf" || name == "errors.New" {
			if iv, ok := r.(IfaceV); ok {
				// a new error value: non-nil, and its data word is a fresh allocation
				e.assume(e.tb.Implies(st.reach, e.tb.Ne(iv.Typ, e.tb.ConstU(0, 64))))
				e.assume(e.tb.Implies(st.reach, e.tb.Ule(e.tb.ConstU(preLimit, 64), iv.Data)))
			}
		}
		return r
	}
	inl := (con != nil && con.Inline) || forced
	if !inl && con == nil && len(fn.Blocks) > 0 && e.autoInline(fn, f.depth) {
		inl = true
	}
	if inl && len(fn.Blocks) > 0 {
		if f.depth > 12 {
			panic("inline depth exceeded at " + name)
		}
		e.inlined[name] = true
		g := e.newFrame(fn, con, false, f.depth+1)
		g.idPrefix = f.idPrefix
		if g.idPrefix == "" {
			g.idPrefix = fnName(f.fn)
		}
		g.counters = f.counters
		g.inlineSet = f.inlineSet
		g.parent = f
		g.parentEnv = st.env
		if len(f.unp) > 0 {
			g.unp = f.unp
			g.unpIn = map[*unpObj]Val{}
			for _, o := range f.unp {
				g.unpIn[o] = st.env[unpackKey{o}]
			}
		}
		res, mem, gh, flags, _ := g.run(args, free, st.mem, st.gh, st.reach, st.st)
		for o, v := range g.unpOut {
			st.env[unpackKey{o}] = v
		}
		st.mem = mem
		st.gh = gh
		st.st = flags
		f.allocs = append(f.allocs, g.allocs...)
		return res
	}
	return f.packedCall(st, append(append([]Val{}, args...), free...), false, func() Val { return f.havocCall(st, name, args, rtype, hint, pos) })
}

// autoInline: small loop-free helpers of the verified module / segmentio/asm.
func (e *Engine) autoInline(fn *ssa.Function, depth int) bool {
	if depth > 6 || fn.Pkg == nil {
		return false
	}
	path := fn.Pkg.Pkg.Path()
	if !strings.HasPrefix(path, "github.com/segmentio/") {
		return false
	}
	n := 0
	for _, b := range fn.Blocks {
		n += len(b.Instrs)
		for _, s := range b.Succs {
			if s.Dominates(b) {
				return false // has a loop
			}
		}
		for _, ins := range b.Instrs {
			if c, ok := ins.(*ssa.Call); ok {
				if cf, ok := c.Call.Value.(*ssa.Function); ok && cf == fn {
					return false
				}
			}
		}
	}
	return n <= e.autoInlineMax
}

func (f *Frame) freshResult(st *execState, name string, rtype types.Type, hint string) Val {
	e := f.e
	if rtype == nil {
		return nil
	}
	if tt, ok := rtype.(*types.Tuple); ok && tt.Len() == 0 {
		return nil
	}
	var inv []*Term
	e.dynVals = true
	r := e.freshVal("ret."+sanitize(name)+"."+hint, rtype, &inv)
	e.dynVals = false
	for _, t := range inv {
		e.assume(e.tb.Implies(st.reach, t))
	}
	return r
}

func hasPointerLike(t types.Type) bool {
	switch u := t.Underlying().(type) {
	case *types.Basic:
		return u.Kind() == types.UnsafePointer
	case *types.Pointer, *types.Slice, *types.Map, *types.Chan, *types.Signature, *types.Interface:
		return true
	case *types.Struct:
		for i := 0; i < u.NumFields(); i++ {
			if hasPointerLike(u.Field(i).Type()) {
				return true
			}
		}
	case *types.Array:
		return hasPointerLike(u.Elem())
	}
	return false
}

func (f *Frame) havocCall(st *execState, name string, args []Val, rtype types.Type, hint string, pos token.Pos) Val {
	e := f.e
	e.noteAbstract(f, "call "+name)
	st.st.cut = true
	// an unknown callee may write through any pointer it is given
	writes := false
	for _, a := range args {
		switch a.(type) {
		case SliceV, IfaceV, FuncV:
			writes = true
		case Scalar:
			writes = true // may be a pointer
		case StructV, ArrayV:
			writes = true
		}
	}
	if writes {
		f.frameCheckAll(st, pos, "call to unmodelled "+name)
		before := st.mem
		st.mem = e.mc.HavocAll("mem.after." + sanitize(name))
		f.keepLocals(st, before, nil)
		st.gh = e.freshGhostFrom(st.gh, ".after." + sanitize(name))
	}
	return f.freshResult(st, name, rtype, hint)
}

func (e *Engine) noteAbstract(f *Frame, what string) {
	k := fnName(f.fn)
	for _, w := range e.abstracted[k] {
		if w == what {
			return
		}
	}
	e.abstracted[k] = append(e.abstracted[k], what)
}

func (e *Engine) contractFor(name string) *Contract {
	// the contract file of the package under verification takes precedence
	// (assumed contracts of dependencies may differ between packages)
	if e.top != nil && e.top.fn != nil && e.top.fn.Pkg != nil {
		pkg := e.top.fn.Pkg.Pkg.Name()
		for _, cs := range e.csets {
			if cs.Pkg == pkg {
				if c, ok := cs.Funcs[name]; ok {
					return c
				}
			}
		}
	}
	for _, cs := range e.csets {
		if c, ok := cs.Funcs[name]; ok {
			return c
		}
	}
	return nil
}

// calleeScope binds the callee's parameter and result names.
func (f *Frame) calleeScope(st *execState, fn *ssa.Function, con *Contract, sig *types.Signature, args []Val, results Val, pre *Mem, recvFirst bool) *Scope {
	e := f.e
	sc := &Scope{e: e, vars: map[string]SV{}, mem: st.mem, oldMem: pre, gh: st.gh, oldGh: f.preGhost, pkg: f.fn.Pkg.Pkg}
	if fn != nil && fn.Pkg != nil {
		sc.pkg = fn.Pkg.Pkg
	}
	bind := func(name string, v Val, t types.Type) {
		if name != "" && name != "_" {
			sc.vars[name] = e.svOf(v, t)
		}
	}
	for n, w := range f.callWitness {
		sc.vars[n] = w
	}
	if fn != nil {
		for i, p := range fn.Params {
			if i < len(args) {
				bind(p.Name(), args[i], p.Type())
			}
		}
	} else {
		i := 0
		if recvFirst || sig.Recv() != nil {
			if len(con.Params) > 0 && len(con.Params) == sig.Params().Len()+1 {
				bind(con.Params[0].Name, args[0], nil)
			} else {
				bind("recv", args[0], nil)
			}
			i = 1
		}
		for k := 0; k < sig.Params().Len(); k++ {
			if i+k < len(args) {
				bind(sig.Params().At(k).Name(), args[i+k], sig.Params().At(k).Type())
			}
		}
	}
	// explicit parameter names from the contract header override
	if len(con.Params) == len(args) {
		for i, p := range con.Params {
			var t types.Type
			if fn != nil && i < len(fn.Params) {
				t = fn.Params[i].Type()
			} else if sig != nil {
				k := i
				if recvFirst || sig.Recv() != nil {
					k = i - 1
				}
				if k >= 0 && k < sig.Params().Len() {
					t = sig.Params().At(k).Type()
				}
			}
			bind(p.Name, args[i], t)
		}
	}
	// results
	rs := sig.Results()
	var rvals []Val
	if results != nil {
		if rs.Len() == 1 {
			rvals = []Val{results}
		} else if tv, ok := results.(TupleV); ok {
			rvals = tv.Elems
		}
	}
	for i := 0; i < rs.Len() && i < len(rvals); i++ {
		bind(fmt.Sprintf("r%d", i), rvals[i], rs.At(i).Type())
		bind(rs.At(i).Name(), rvals[i], rs.At(i).Type())
		if i < len(con.Results) {
			bind(con.Results[i].Name, rvals[i], rs.At(i).Type())
		}
	}
	return sc
}

func (f *Frame) modularCall(st *execState, fn *ssa.Function, name string, con *Contract, sig *types.Signature, args []Val, rtype types.Type, pos token.Pos, hint string, recvFirst bool) Val {
	e := f.e
	tb := e.tb
	if con.Assumed || con.Trusted != "" {
		e.trusted["assumed contract: "+name] = true
	}
	e.usedContracts[name] = true
	pre := st.mem
	f.preGhost = st.gh
	// 1. preconditions
	sc := f.calleeScope(st, fn, con, sig, args, nil, pre, recvFirst)
	for _, r := range con.Requires {
		sc.goal = true
		g := e.evalBool(sc, r.Expr, r.Text)
		f.oblige(st, "requires", shortCallee(name)+"."+r.Label, st.reach, g, pos, "precondition of "+name+": "+r.Text)
		e.assume(tb.Implies(st.reach, g))
	}
	// 2. frame
	if con.HasMod {
		for _, m := range con.Modifies {
			sc.goal = false
			d := e.evalDesignator(sc, m.Expr, m.Text)
			f.frameCheckD(st, d, pos, "callee "+name+" modifies "+m.Text)
			switch {
			case d.ghost == "":
				st.mem = e.mc.HavocRange(st.mem, d.lo, d.n, "mem."+sanitize(shortCallee(name)))
			case d.lo == nil:
				st.gh = st.gh.withScalar(d.ghost, e.tb.Fresh("ghost."+d.ghost+"."+sanitize(shortCallee(name)), BV(64)))
			default:
				st.gh = st.gh.withMem(d.ghost, e.mc.HavocRange(st.gh.mm[d.ghost], d.lo, d.n, "ghost."+d.ghost+"."+sanitize(shortCallee(name))))
			}
		}
		// the callee may call the function values passed for the parameters
		// named in "calls": their declared frames are part of its effect
		for _, pn := range con.Calls {
			idx := -1
			if fn != nil {
				for i, p := range fn.Params {
					if p.Name() == pn {
						idx = i
					}
				}
			}
			for i, p := range con.Params {
				if p.Name == pn && idx < 0 {
					idx = i
				}
			}
			var fv FuncV
			ok := false
			if idx >= 0 && idx < len(args) {
				fv, ok = args[idx].(FuncV)
			}
			cfn, _ := fv.Fn.(*ssa.Function)
			var cc *Contract
			if ok && cfn != nil {
				cc = e.contractFor(fnName(cfn))
			}
			if cc == nil || !cc.HasMod {
				f.frameCheckAll(st, pos, "callee "+name+" calls "+pn+", which has no declared frame")
				before := st.mem
				st.mem = e.mc.HavocAll("mem.after." + sanitize(shortCallee(name)))
				f.keepLocals(st, before, nil)
				st.gh = e.freshGhostFrom(st.gh, ".after." + sanitize(shortCallee(name)))
				continue
			}
			e.trusted["frame of closure "+fnName(cfn)+" (called by "+name+") is taken from its contract"] = true
			csc := &Scope{e: e, vars: map[string]SV{}, mem: st.mem, oldMem: st.mem, gh: st.gh, oldGh: st.gh, pkg: cfn.Pkg.Pkg}
			for i, v := range cfn.FreeVars {
				if i < len(fv.Free) {
					csc.vars[v.Name()] = e.svOf(fv.Free[i], v.Type())
				}
			}
			for _, m := range cc.Modifies {
				csc.goal = false
				d := e.evalDesignator(csc, m.Expr, m.Text)
				f.frameCheckD(st, d, pos, "closure "+fnName(cfn)+" (called by "+name+") modifies "+m.Text)
				if d.ghost == "" {
					st.mem = e.mc.HavocRange(st.mem, d.lo, d.n, "mem."+sanitize(shortCallee(name))+"."+pn)
				}
			}
		}
	} else if fn != nil && e.bodyIsPure(fn, 0) {
		// no writes
	} else {
		f.frameCheckAll(st, pos, "call to "+name+" (no modifies clause)")
		before := st.mem
		st.mem = e.mc.HavocAll("mem.after." + sanitize(shortCallee(name)))
		f.keepLocals(st, before, nil)
		st.gh = e.freshGhostFrom(st.gh, ".after." + sanitize(shortCallee(name)))
	}
	st.st.cut = true
	// 3. results + postconditions. A clause of the form "r0 == E" on a
	// single integer result defines the result (no fresh variable), so that
	// equal arguments give syntactically equal results.
	var res Val
	defIdx := -1
	if sig.Results().Len() == 1 {
		for i, en := range con.Ensures {
			if be, ok := en.Expr.(*ast.BinaryExpr); ok && be.Op == token.EQL {
				if id, ok := be.X.(*ast.Ident); ok && (id.Name == "r0" || id.Name == sig.Results().At(0).Name() && id.Name != "") {
					if bt, ok := sig.Results().At(0).Type().Underlying().(*types.Basic); ok && bt.Info()&types.IsInteger != 0 {
						sc0 := f.calleeScope(st, fn, con, sig, args, nil, pre, recvFirst)
						sc0.goal = false
						sc0.what = en.Text
						v := sc0.eval(be.Y)
						res = Scalar{sc0.toInt(v, bitsOf(sig.Results().At(0).Type()), isSigned(sig.Results().At(0).Type()))}
						defIdx = i
						break
					}
				}
			}
		}
	}
	if res == nil {
		res = f.freshResult(st, shortCallee(name), rtype, hint)
	}
	// witnesses: fresh values at a call site
	f.callWitness = map[string]SV{}
	for _, wt := range con.Witnesses {
		ty, ok := specTypes[wt.Type]
		if !ok {
			panic(specError{"witness " + wt.Name + ": unsupported type " + wt.Type})
		}
		f.callWitness[wt.Name] = SV{k: kInt, t: tb.Fresh("wit."+sanitize(shortCallee(name))+"."+wt.Name, BV(ty.w)), signed: ty.signed}
	}
	// "returns" clauses: redefine results as ite(when, value, fresh)
	if len(con.Returns) > 0 {
		sc1 := f.calleeScope(st, fn, con, sig, args, res, pre, recvFirst)
		rs := sig.Results()
		for _, rc := range con.Returns {
			idx := -1
			for i := 0; i < rs.Len(); i++ {
				if rc.Result == fmt.Sprintf("r%d", i) || (rs.At(i).Name() != "" && rs.At(i).Name() == rc.Result) || (i < len(con.Results) && con.Results[i].Name == rc.Result) {
					idx = i
				}
			}
			if idx < 0 {
				panic(specError{"returns: unknown result " + rc.Result + " of " + name})
			}
			rt := rs.At(idx).Type()
			sc1.goal = false
			sc1.what = rc.Val.Text
			var curV Val
			if rs.Len() == 1 {
				curV = res
			} else {
				curV = res.(TupleV).Elems[idx]
			}
			var newV Val
			if _, isSlice := rt.Underlying().(*types.Slice); isSlice {
				sv := sc1.eval(rc.Val.Expr)
				nsl, ok := sv.v.(SliceV)
				if sv.k != kVal || !ok {
					panic(specError{"returns: slice-valued result needs a slice expression (" + rc.Result + " of " + name + ")"})
				}
				newV = nsl
				if rc.When != nil {
					w := e.evalBool(sc1, rc.When.Expr, rc.When.Text)
					newV = e.mergeVal(w, nsl, curV)
				}
			} else {
				bt, ok := rt.Underlying().(*types.Basic)
				if !ok || bt.Info()&types.IsInteger == 0 {
					panic(specError{"returns: only integer and slice results can be defined (" + rc.Result + " of " + name + ")"})
				}
				v := sc1.toInt(sc1.eval(rc.Val.Expr), bitsOf(rt), isSigned(rt))
				nv := v
				if rc.When != nil {
					w := e.evalBool(sc1, rc.When.Expr, rc.When.Text)
					nv = tb.Ite(w, v, curV.(Scalar).T)
				}
				newV = Scalar{nv}
			}
			if rs.Len() == 1 {
				res = newV
			} else {
				tv := res.(TupleV)
				el := append([]Val{}, tv.Elems...)
				el[idx] = newV
				res = TupleV{el}
			}
			// later clauses see the redefined value
			sc1 = f.calleeScope(st, fn, con, sig, args, res, pre, recvFirst)
		}
	}
	// "sets" clauses: ghost scalars after the call are ite(when, value, fresh)
	for _, sc2 := range con.Sets {
		scs := f.calleeScope(st, fn, con, sig, args, res, pre, recvFirst)
		scs.goal = false
		scs.what = sc2.Val.Text
		v := scs.toInt(scs.eval(sc2.Val.Expr), 64, true)
		if sc2.When != nil {
			w := e.evalBool(scs, sc2.When.Expr, sc2.When.Text)
			v = tb.Ite(w, v, st.gh.sc[sc2.Ghost])
		}
		st.gh = st.gh.withScalar(sc2.Ghost, v)
	}
	sc = f.calleeScope(st, fn, con, sig, args, res, pre, recvFirst)
	for _, h := range con.Small {
		if v, ok := sc.vars[h.Result]; ok && v.k == kInt && !v.t.IsConst() {
			e.mc.small[v.t] = [2]int64{h.Lo, h.Hi}
		}
	}
	for i, en := range con.Ensures {
		if i == defIdx {
			continue
		}
		skip := mentionsGhost(con, en.Expr)
		for _, ri := range con.retEnsures {
			if ri == i {
				skip = true // already built into the result definition
			}
		}
		if skip {
			continue
		}
		e.assumeClause(sc, en.Expr, en.Text, st.reach)
	}
	return res
}

func shortCallee(name string) string {
	if i := strings.LastIndex(name, "."); i >= 0 && !strings.HasPrefix(name, "(") {
		return name[i+1:]
	}
	return strings.NewReplacer("(", "", ")", "", "*", "").Replace(name)
}

// ---- postconditions of the function under proof

func (f *Frame) resultScope(st *execState, vals []Val) *Scope {
	e := f.e
	sc := f.scopeAt(st, nil)
	sc.paramsFirst = true
	rs := f.fn.Signature.Results()
	for i := 0; i < rs.Len(); i++ {
		sv := e.svOf(vals[i], rs.At(i).Type())
		sc.vars[fmt.Sprintf("r%d", i)] = sv
		if n := rs.At(i).Name(); n != "" && n != "_" {
			sc.vars[n] = sv
		}
		if f.con != nil && i < len(f.con.Results) {
			sc.vars[f.con.Results[i].Name] = sv
		}
	}
	if f.con != nil {
		for _, wt := range f.con.Witnesses {
			sc.goal = false
			sc.what = wt.Def.Text
			sc.vars[wt.Name] = sc.coerceParam(sc.eval(wt.Def.Expr), wt.Type, "witness "+wt.Name)
		}
	}
	return sc
}

// checkEnsuresPaths emits one obligation per postcondition; its parts are the
// return sites (each evaluated in its own, path-simplified state).
func (f *Frame) checkEnsuresPaths(flags pathFlags) {
	e := f.e
	f.curBlock = nil
	if f.con == nil {
		return
	}
	tb := e.tb
	for _, en := range f.con.Ensures {
		if len(en.Props) > 0 && e.w.property != "" {
			found := false
			for _, p := range en.Props {
				if p == e.w.property {
					found = true
				}
			}
			if !found {
				continue
			}
		}
		if strings.HasPrefix(en.Label, "slow-") && e.w.tier != "thorough" {
			e.deferred = append(e.deferred, fnName(f.fn)+"#ensures:"+en.Label)
			continue
		}
		var parts []oblPart
		var conds, goals []*Term
		for _, r := range f.rets {
			st := &execState{reach: r.cond, env: r.env, mem: r.mem, gh: r.gh, st: r.st}
			f.curBlock = r.blk
			sc := f.resultScope(st, r.vals)
			sc.goal = true
			g := e.evalBool(sc, en.Expr, en.Text)
			conds = append(conds, r.cond)
			goals = append(goals, tb.Implies(r.cond, g))
			if g.IsTrue() || r.cond.IsFalse() {
				continue
			}
			parts = append(parts, oblPart{r.cond, g})
		}
		st := &execState{reach: tb.Or(conds...), st: flags}
		n := len(e.obls)
		f.oblige(st, "ensures", en.Label, st.reach, tb.And(goals...), f.retPos, "postcondition: "+en.Text)
		if len(e.obls) > n {
			o := e.obls[len(e.obls)-1]
			o.Splits = e.topSplits
			if len(parts) > 1 {
				o.Parts = parts
			}
		}
	}
}

func (f *Frame) checkEnsures(st *execState, vals []Val, pos token.Pos) {
	e := f.e
	if f.con == nil {
		return
	}
	sc := f.resultScope(st, vals)
	splits := e.topSplits
	for _, en := range f.con.Ensures {
		sc.goal = true
		g := e.evalBool(sc, en.Expr, en.Text)
		n := len(e.obls)
		f.oblige(st, "ensures", en.Label, st.reach, g, pos, "postcondition: "+en.Text)
		if len(e.obls) > n {
			e.obls[len(e.obls)-1].Splits = splits
		}
	}
}

// ---- frame conditions

func (f *Frame) topFrame() *Frame { return f.e.top }

// frameCheck: a write to [addr, addr+size) must lie inside a declared modifies
// region of the function under proof or inside memory allocated during the call.
// loopFrameCheck: a write inside a loop that declares a frame must stay inside
// that frame (or go to memory allocated after the address-space split); this
// is what justifies havocking only the declared regions at the loop head.
func (f *Frame) loopFrameCheck(st *execState, ghost string, addr, size *Term, pos token.Pos, what string) {
	if f.parent != nil {
		f.parent.loopFrameCheck(st, ghost, addr, size, pos, what)
	}
	if f.curBlock == nil || len(f.loopMods) == 0 || f.e.noSafety {
		return
	}
	e := f.e
	tb := e.tb
	for _, li := range f.loops {
		mods, declared := f.loopMods[li]
		if !declared || !li.body[f.curBlock] {
			continue
		}
		var alts []*Term
		for _, d := range mods {
			if d.ghost != ghost {
				continue
			}
			if ghost != "" && (d.lo == nil || addr == nil) {
				if d.lo == nil && addr == nil {
					alts = append(alts, tb.True())
				}
				continue
			}
			off := tb.Sub(addr, d.lo)
			alts = append(alts, tb.And(tb.Ule(size, d.n), tb.Ule(off, tb.Sub(d.n, size))))
		}
		if addr != nil {
			alts = append(alts, tb.Eq(size, tb.ConstU(0, 64)))
			if ghost == "" {
				// fresh memory, but not a region the loop declares it keeps
				fresh := tb.Ule(tb.ConstU(preLimit, 64), addr)
				for _, k := range f.loopKeeps[li] {
					if k.ghost != "" {
						continue
					}
					// disjoint: addr+size <= k.lo or k.lo+k.n <= addr
					fresh = tb.And(fresh, tb.Or(tb.Ule(tb.Add(addr, size), k.lo), tb.Ule(tb.Add(k.lo, k.n), addr)))
				}
				alts = append(alts, fresh)
				if len(f.loopKeeps[li]) == 0 {
					for _, r := range f.allocs {
						off := tb.Sub(addr, r.ptr)
						alts = append(alts, tb.And(tb.Ule(size, r.size), tb.Ule(off, tb.Sub(r.size, size))))
					}
				}
			}
		}
		f.oblige(st, "frame", fmt.Sprintf("L%d", li.ordinal), st.reach, tb.Or(alts...), pos, fmt.Sprintf("write inside loop %d stays inside the loop's modifies clause: %s", li.ordinal, what))
	}
}

func (f *Frame) frameCheck(st *execState, addr, size *Term, pos token.Pos, what string) {
	f.loopFrameCheck(st, "", addr, size, pos, what)
	e := f.e
	top := e.top
	if top == nil || top.con == nil || !top.con.HasMod || e.noSafety {
		return
	}
	tb := e.tb
	within := func(lo, n *Term) *Term {
		off := tb.Sub(addr, lo)
		return tb.And(tb.Ule(size, n), tb.Ule(off, tb.Sub(n, size)))
	}
	var alts []*Term
	for _, r := range e.regions[e.topRegionStart:] {
		alts = append(alts, within(r.ptr, r.size))
	}
	for _, r := range e.topModifies {
		alts = append(alts, within(r.ptr, r.size))
	}
	alts = append(alts, tb.Eq(size, tb.ConstU(0, 64)))
	// memory above the address-space split did not exist for the caller
	// (allocations and pool objects handed out during the call)
	alts = append(alts, tb.Ule(tb.ConstU(preLimit, 64), addr))
	f.oblige(st, "frame", "", st.reach, tb.Or(alts...), pos, "write stays inside the modifies clause: "+what)
}

// frameCheckD is frameCheck for a designator that may name ghost state.
func (f *Frame) frameCheckD(st *execState, d designator, pos token.Pos, what string) {
	e := f.e
	if d.ghost == "" {
		f.frameCheck(st, d.lo, d.n, pos, what)
		return
	}
	f.loopFrameCheck(st, d.ghost, d.lo, d.n, pos, what)
	top := e.top
	if top == nil || top.con == nil || !top.con.HasMod || e.noSafety {
		return
	}
	tb := e.tb
	var alts []*Term
	for _, a := range e.topGhostMods {
		if a.ghost != d.ghost {
			continue
		}
		if d.lo == nil {
			alts = append(alts, tb.True())
			continue
		}
		if a.lo == nil {
			continue
		}
		off := tb.Sub(d.lo, a.lo)
		alts = append(alts, tb.And(tb.Ule(d.n, a.n), tb.Ule(off, tb.Sub(a.n, d.n))))
	}
	if d.lo != nil {
		alts = append(alts, tb.Eq(d.n, tb.ConstU(0, 64)))
	}
	f.oblige(st, "frame", "", st.reach, tb.Or(alts...), pos, "ghost write stays inside the modifies clause: "+what)
}

func (f *Frame) frameCheckAll(st *execState, pos token.Pos, what string) {
	e := f.e
	for g := f; g != nil; g = g.parent {
		if g.curBlock == nil {
			continue
		}
		for _, li := range g.loops {
			if _, declared := g.loopMods[li]; declared && li.body[g.curBlock] {
				g.oblige(st, "frame", fmt.Sprintf("L%d", li.ordinal), st.reach, e.tb.False(), pos, "unbounded write inside a loop with a modifies clause: "+what)
			}
		}
	}
	top := e.top
	if top == nil || top.con == nil || !top.con.HasMod || e.noSafety {
		return
	}
	f.oblige(st, "frame", "", st.reach, e.tb.False(), pos, "unbounded write under a modifies clause: "+what)
}

func (f *Frame) isDeclaredPanic(st *execState, x *ssa.Panic) bool {
	e := f.e
	top := e.top
	if top == nil || top.con == nil || len(top.con.Panics) == 0 {
		return false
	}
	// the panic must be reached only under one of the declared conditions
	var alts []*Term
	sc := &Scope{e: e, vars: map[string]SV{}, mem: top.entryMem, oldMem: top.entryMem, pkg: top.fn.Pkg.Pkg}
	sc.golookup = func(name string) (SV, bool) {
		for i, p := range top.fn.Params {
			if p.Name() == name {
				return e.svOf(top.params[i], p.Type()), true
			}
		}
		return SV{}, false
	}
	for _, p := range top.con.Panics {
		sc.goal = true
		alts = append(alts, e.evalBool(sc, p.Expr, p.Text))
	}
	f.oblige(st, "safety", "panic-declared", st.reach, e.tb.Or(alts...), x.Pos(), "panic only under a declared condition")
	return true
}

// ---- builtins

func (f *Frame) builtin(st *execState, b *ssa.Builtin, c *ssa.CallCommon, args []Val, rtype types.Type, pos token.Pos) Val {
	e := f.e
	tb := e.tb
	c64 := func(v uint64) *Term { return tb.ConstU(v, 64) }
	switch b.Name() {
	case "len":
		switch x := args[0].(type) {
		case SliceV:
			return Scalar{x.Len}
		case StringV:
			return Scalar{x.Len}
		case ArrayV:
			return Scalar{c64(uint64(len(x.Elems)))}
		case Scalar: // map/chan or pointer to array
			if pt, ok := c.Args[0].Type().Underlying().(*types.Pointer); ok {
				return Scalar{c64(uint64(pt.Elem().Underlying().(*types.Array).Len()))}
			}
			u := tb.DeclUF("maplen", []Sort{BV(64)}, BV(64))
			r := tb.App(u, x.T)
			e.assume(tb.Sle(c64(0), r))
			return Scalar{r}
		}
	case "cap":
		switch x := args[0].(type) {
		case SliceV:
			return Scalar{x.Cap}
		case ArrayV:
			return Scalar{c64(uint64(len(x.Elems)))}
		case Scalar:
			if pt, ok := c.Args[0].Type().Underlying().(*types.Pointer); ok {
				return Scalar{c64(uint64(pt.Elem().Underlying().(*types.Array).Len()))}
			}
		}
	case "copy":
		dst := args[0].(SliceV)
		var sp, sl *Term
		switch s := args[1].(type) {
		case SliceV:
			sp, sl = s.Ptr, s.Len
		case StringV:
			sp, sl = s.Ptr, s.Len
		}
		esz := sizes.Sizeof(c.Args[0].Type().Underlying().(*types.Slice).Elem())
		n := tb.Ite(tb.Ult(dst.Len, sl), dst.Len, sl)
		nb := tb.Mul(n, c64(uint64(esz)))
		f.frameCheck(st, dst.Ptr, nb, pos, "copy")
		st.mem = e.mc.Copy(st.mem, dst.Ptr, sp, nb)
		return Scalar{n}
	case "append":
		return f.appendOp(st, c, args, pos)
	case "min", "max":
		signed := isSigned(c.Args[0].Type())
		r := args[0].(Scalar).T
		for _, a := range args[1:] {
			t := a.(Scalar).T
			lt := e.cmp(token.LSS, signed, r, t)
			if b.Name() == "min" {
				r = tb.Ite(lt, r, t)
			} else {
				r = tb.Ite(lt, t, r)
			}
		}
		return Scalar{r}
	case "ssa:wrapnilchk":
		return args[0]
	case "delete", "clear", "print", "println":
		e.noteAbstract(f, "builtin "+b.Name())
		return nil
	case "Add": // unsafe.Add(ptr, len)
		off := args[1].(Scalar).T
		if off.sort.W != 64 {
			off = tb.SExt(off, 64)
		}
		return Scalar{tb.Add(args[0].(Scalar).T, off)}
	case "StringData":
		return Scalar{args[0].(StringV).Ptr}
	case "SliceData":
		return Scalar{args[0].(SliceV).Ptr}
	case "String": // unsafe.String(ptr, len)
		n := args[1].(Scalar).T
		if n.sort.W != 64 {
			n = tb.SExt(n, 64)
		}
		return StringV{args[0].(Scalar).T, n}
	case "Slice": // unsafe.Slice(ptr, len)
		n := args[1].(Scalar).T
		if n.sort.W != 64 {
			n = tb.SExt(n, 64)
		}
		return SliceV{args[0].(Scalar).T, n, n}
	}
	panic(fmt.Sprintf("%s: unsupported builtin %s", f.fn.Name(), b.Name()))
}

// appendOp models append(s, elems...): in place when len+n <= cap, otherwise a
// fresh array of some capacity >= len+n holding a copy of the old elements.
func (f *Frame) appendOp(st *execState, c *ssa.CallCommon, args []Val, pos token.Pos) Val {
	e := f.e
	tb := e.tb
	c64 := func(v uint64) *Term { return tb.ConstU(v, 64) }
	s := args[0].(SliceV)
	esz := uint64(sizes.Sizeof(c.Args[0].Type().Underlying().(*types.Slice).Elem()))
	var sp, sl *Term
	switch a := args[1].(type) {
	case SliceV:
		sp, sl = a.Ptr, a.Len
	case StringV:
		sp, sl = a.Ptr, a.Len
	default:
		panic("append: unexpected argument")
	}
	newLen := tb.Add(s.Len, sl)
	fits := tb.Ule(newLen, s.Cap)
	// fresh array
	np := tb.Fresh("append.ptr", BV(64))
	ncap := tb.Fresh("append.cap", BV(64))
	lim := c64(addrLimit)
	e.assume(tb.Ule(c64(preLimit), np))
	e.assume(tb.Ule(newLen, ncap))
	e.assume(tb.Ule(ncap, c64((1<<45)/esz)))
	e.assume(tb.Ule(tb.Add(np, tb.Mul(ncap, c64(esz))), lim))
	e.assume(tb.Ult(np, lim))
	nbytes := tb.Mul(ncap, c64(esz))
	for _, r := range e.regions {
		e.assume(e.disjoint(np, nbytes, r.ptr, r.size))
	}
	rec := allocRec{np, nbytes}
	e.regions = append(e.regions, rec)
	f.allocs = append(f.allocs, rec)
	rp := tb.Ite(fits, s.Ptr, np)
	rc := tb.Ite(fits, s.Cap, ncap)
	// memory: copy old content into the new array when growing, then the new elements
	oldBytes := tb.Mul(s.Len, c64(esz))
	addBytes := tb.Mul(sl, c64(esz))
	m := st.mem
	grown := e.mc.Copy(m, np, s.Ptr, oldBytes)
	m = e.mc.Merge([]*Term{fits, tb.Not(fits)}, []*Mem{m, grown})
	dst := tb.Add(rp, oldBytes)
	// frame: writing in place touches [ptr+len, ptr+len+n)
	st2 := *st
	st2.reach = tb.And(st.reach, fits)
	f.frameCheck(&st2, dst, addBytes, pos, "append in place")
	st.mem = e.mc.Copy(m, dst, sp, addBytes)
	return SliceV{rp, newLen, rc}
}

// mentionsGhost: the clause speaks about a loop ghost variable (or a name bound
// by "after call") of the callee; such clauses are internal to the callee's
// proof and are not exported to callers.
func mentionsGhost(con *Contract, ex ast.Expr) bool {
	names := map[string]bool{}
	for _, l := range con.Loops {
		for _, g := range l.Ghosts {
			names[g.Name] = true
		}
	}
	for _, a := range con.Afters {
		names[a.Name] = true
	}
	if len(names) == 0 {
		return false
	}
	found := false
	ast.Inspect(ex, func(n ast.Node) bool {
		if id, ok := n.(*ast.Ident); ok && names[id.Name] {
			found = true
		}
		return !found
	})
	return found
}
