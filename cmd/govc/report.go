package main

import (
	"encoding/json"
	"fmt"
	"os"
	"path/filepath"
	"sort"
	"strings"
	"sync"
	"time"
)

type job struct {
	name  string
	con   *Contract
	lemma *Lemma
}

func selectJobs(w *World, o *checkOpts) []job {
	var jobs []job
	want := map[string]bool{}
	if o.funcs != "" {
		for _, f := range strings.Split(o.funcs, ",") {
			want[strings.TrimSpace(f)] = true
		}
	}
	hasProp := func(ps []string) bool {
		if o.property == "" {
			return true
		}
		for _, p := range ps {
			if p == o.property {
				return true
			}
		}
		return false
	}
	for _, cs := range w.csets {
		for _, n := range cs.Order {
			c := cs.Funcs[n]
			if c.Assumed || c.Trusted != "" || strings.HasPrefix(n, "field ") {
				continue
			}
			if len(want) > 0 {
				if want[n] || want[shortCallee(n)] {
					jobs = append(jobs, job{name: n, con: c})
				}
				continue
			}
			if hasProp(c.Props) {
				jobs = append(jobs, job{name: n, con: c})
			}
		}
		for _, lm := range cs.Lemmas {
			if len(want) > 0 {
				if want["lemma "+lm.Label] || want[lm.Label] {
					jobs = append(jobs, job{name: "lemma " + lm.Label, lemma: lm})
				}
				continue
			}
			if hasProp(lm.Props) {
				jobs = append(jobs, job{name: "lemma " + lm.Label, lemma: lm})
			}
		}
	}
	return jobs
}

func runCheck(w *World, o *checkOpts, t0 time.Time) int {
	jobs := selectJobs(w, o)
	if len(jobs) == 0 {
		fmt.Fprintln(os.Stderr, "no functions under contract selected")
		return 2
	}
	if err := w.loadImages(); err != nil {
		fmt.Fprintln(os.Stderr, "global images:", err)
		return 2
	}
	tmp, err := os.MkdirTemp("", "govc-smt-")
	if err != nil {
		fmt.Fprintln(os.Stderr, err)
		return 2
	}
	defer os.RemoveAll(tmp)
	cfg := &solveCfg{tmp: tmp, fastSec: 3, fullSec: 20}
	if o.tier == "thorough" {
		cfg.fastSec, cfg.fullSec = 10, 120
	}
	if o.keep != "" {
		os.MkdirAll(o.keep, 0o755)
		cfg.tmp, cfg.keepFiles = o.keep, true
	}
	results := make([]*JobResult, len(jobs))
	sem := make(chan struct{}, o.workers)
	var wg sync.WaitGroup
	gen := make(chan struct{}, 8) // VC generation parallelism
	for i, j := range jobs {
		i, j := i, j
		wg.Add(1)
		go func() {
			defer wg.Done()
			gen <- struct{}{}
			var jr *JobResult
			if j.lemma != nil {
				jr = w.verifyLemma(j.lemma)
			} else {
				jr = w.verifyFunc(j.name, j.con)
			}
			<-gen
			if jr.Err == "" {
				dischargeAll(cfg, jr, sem)
			}
			results[i] = jr
		}()
	}
	wg.Wait()
	return report(w, o, results, time.Since(t0).Seconds())
}

type oblReport struct {
	ID     string  `json:"id"`
	Kind   string  `json:"kind"`
	Status string  `json:"status"`
	Solver string  `json:"solver,omitempty"`
	Secs   float64 `json:"secs"`
	Desc   string  `json:"desc,omitempty"`
	Pos    string  `json:"pos,omitempty"`
}

func report(w *World, o *checkOpts, results []*JobResult, wall float64) int {
	total, discharged, failed, undecided := 0, 0, 0, 0
	bySolver := map[string]int{}
	secsBySolver := map[string]float64{}
	var fails []*Obligation
	var failJobs []*JobResult
	exit := 0
	for _, jr := range results {
		if jr.Err != "" {
			fmt.Printf("UNDECIDED property=%s reason=%s function=%s\n", o.property, jr.Err, jr.Name)
			undecided++
			exit = 2
			continue
		}
		for _, ob := range jr.Obls {
			if ob.Kind == "vacuity" {
				if ob.Result.Status != "sat" {
					fmt.Printf("UNDECIDED property=%s reason=vacuous-precondition function=%s (%s)\n", o.property, jr.Name, ob.Result.Status)
					undecided++
					exit = 2
				}
				continue
			}
			total++
			switch ob.Result.Status {
			case "unsat":
				discharged++
				bySolver[ob.Result.Solver]++
				secsBySolver[ob.Result.Solver] += ob.Result.Secs
			default:
				failed++
				fails = append(fails, ob)
				failJobs = append(failJobs, jr)
			}
			if o.verbose {
				fmt.Printf("  %-8s %-10s %6.2fs %s  %s\n", ob.Result.Status, ob.Result.Solver, ob.Result.Secs, ob.ID, ob.Desc)
			}
		}
	}
	for i, ob := range fails {
		fmt.Printf("FAILED %s [%s by %s %.2fs] %s (%s:%d)\n", ob.ID, ob.Result.Status, ob.Result.Solver, ob.Result.Secs, ob.Desc, filepath.Base(ob.Pos.Filename), ob.Pos.Line)
		if ob.Result.Status == "sat" && o.verbose {
			printModel(failJobs[i], ob)
		}
	}
	fmt.Printf("property=%s functions=%d obligations=%d discharged=%d failed=%d undecided=%d wall=%.1fs solvers=%v\n",
		o.property, len(results), total, discharged, failed, undecided, wall, bySolver)
	if failed > 0 && exit == 0 {
		exit = 1
	}
	return exit
}

// namedModel maps input names to model values.
func namedModel(jr *JobResult, ob *Obligation) map[string]string {
	m := map[string]string{}
	for i, n := range jr.Inputs {
		if v, ok := ob.Result.Model[fmt.Sprint(i)]; ok {
			m[n] = v
		}
	}
	return m
}

func printModel(jr *JobResult, ob *Obligation) {
	m := namedModel(jr, ob)
	var bytesOf = map[string][]byte{}
	for i, n := range jr.Inputs {
		v, ok := ob.Result.Model[fmt.Sprint(i)]
		if !ok {
			continue
		}
		if j := strings.Index(n, "["); j > 0 && strings.HasSuffix(n, "]") {
			var b uint64
			fmt.Sscanf(strings.TrimPrefix(v, "#x"), "%x", &b)
			bytesOf[n[:j]] = append(bytesOf[n[:j]], byte(b))
			continue
		}
		fmt.Printf("      %s = %s\n", n, v)
	}
	for n, bs := range bytesOf {
		fmt.Printf("      %s[0:%d] = %q\n", n, len(bs), bs)
	}
	_ = m
	_ = sort.Strings
}

func writeJSON(path string, v interface{}) error {
	data, err := json.MarshalIndent(v, "", " ")
	if err != nil {
		return err
	}
	os.MkdirAll(filepath.Dir(path), 0o755)
	return os.WriteFile(path, append(data, '\n'), 0o644)
}

func cmdReplay(args []string) int {
	fmt.Fprintln(os.Stderr, "replay: not implemented yet")
	return 2
}
