package main

import (
	"encoding/json"
	"fmt"
	"os"
	"path/filepath"
	"sort"
	"strings"
	"sync"
	"time"
)

type job struct {
	name  string
	con   *Contract
	lemma *Lemma
}

func selectJobs(w *World, o *checkOpts) []job {
	var jobs []job
	want := map[string]bool{}
	if o.funcs != "" {
		for _, f := range strings.Split(o.funcs, ",") {
			want[strings.TrimSpace(f)] = true
		}
	}
	hasProp := func(ps []string) bool {
		if o.property == "" {
			return true
		}
		for _, p := range ps {
			if p == o.property {
				return true
			}
		}
		return false
	}
	for _, cs := range w.csets {
		for _, n := range cs.Order {
			c := cs.Funcs[n]
			if c.Assumed || c.Trusted != "" || c.Inline || strings.HasPrefix(n, "field ") {
				continue
			}
			if len(want) > 0 {
				if want[n] || want[shortCallee(n)] {
					jobs = append(jobs, job{name: n, con: c})
				}
				continue
			}
			if hasProp(c.Props) {
				jobs = append(jobs, job{name: n, con: c})
			}
		}
		for _, lm := range cs.Lemmas {
			if strings.HasPrefix(lm.Label, "slow-") && o.tier != "thorough" {
				continue
			}
			if len(want) > 0 {
				if want["lemma "+lm.Label] || want[lm.Label] {
					jobs = append(jobs, job{name: "lemma " + lm.Label, lemma: lm})
				}
				continue
			}
			if hasProp(lm.Props) {
				jobs = append(jobs, job{name: "lemma " + lm.Label, lemma: lm})
			}
		}
	}
	return jobs
}

func runCheck(w *World, o *checkOpts, t0 time.Time) int {
	w.tier = o.tier
	w.property = o.property
	jobs := selectJobs(w, o)
	if len(jobs) == 0 {
		fmt.Fprintln(os.Stderr, "no functions under contract selected")
		return 2
	}
	if err := w.loadImages(); err != nil {
		fmt.Fprintln(os.Stderr, "global images:", err)
		return 2
	}
	tmp, err := os.MkdirTemp("", "govc-smt-")
	if err != nil {
		fmt.Fprintln(os.Stderr, err)
		return 2
	}
	defer os.RemoveAll(tmp)
	cfg := &solveCfg{tmp: tmp, fastSec: 6, fullSec: 30}
	if o.tier == "thorough" {
		cfg.fastSec, cfg.fullSec = 20, 180
	}
	if v := os.Getenv("GOVC_TIMEOUTS"); v != "" { // testing aid: "fast,full" seconds
		fmt.Sscanf(v, "%d,%d", &cfg.fastSec, &cfg.fullSec)
	}
	if o.keep != "" {
		os.MkdirAll(o.keep, 0o755)
		cfg.tmp, cfg.keepFiles = o.keep, true
	}
	results := make([]*JobResult, len(jobs))
	sem := make(chan struct{}, o.workers)
	var wg sync.WaitGroup
	gen := make(chan struct{}, 8) // VC generation parallelism
	for i, j := range jobs {
		i, j := i, j
		wg.Add(1)
		go func() {
			defer wg.Done()
			gen <- struct{}{}
			var jr *JobResult
			if j.lemma != nil {
				jr = w.verifyLemma(j.lemma)
			} else {
				jr = w.verifyFunc(j.name, j.con)
			}
			<-gen
			if jr.Err == "" {
				dischargeAll(cfg, jr, sem)
			}
			results[i] = jr
		}()
	}
	wg.Wait()
	// Second chance for obligations that ran out of time (never for refuted
	// ones): the same queries with longer time-outs and the machine to
	// themselves, so that load on the host cannot turn a proved obligation
	// into an alarm. Obligations recorded as open known findings are left.
	if os.Getenv("GOVC_NORETRY") == "" {
		kf := loadKnownFindings()
		cfg2 := *cfg
		cfg2.fastSec, cfg2.fullSec = cfg.fastSec*3, cfg.fullSec*4
		for _, jr := range results {
			if jr == nil || jr.Err != "" {
				continue
			}
			var again []*Obligation
			for _, ob := range jr.Obls {
				st := ob.Result.Status
				sweepable := ob.Kind == "safety" && ob.Cut && (ob.Label == "nil" || ob.Label == "typeassert") && jr.Contract != nil && jr.Contract.Abstracted
				if (st == "timeout" || st == "unknown") && ob.Kind != "vacuity" && !sweepable && kf.open(o.property, ob.ID) == nil {
					again = append(again, ob)
				}
			}
			if len(again) == 0 {
				continue
			}
			jr2 := *jr
			jr2.Obls = again
			first := map[*Obligation]Result{}
			for _, ob := range again {
				first[ob] = ob.Result
			}
			dischargeAll(&cfg2, &jr2, sem)
			for _, ob := range again {
				ob.Result.Secs += first[ob].Secs
				ob.Result.Attempt = append([]string{fmt.Sprintf("first pass: %s after %.1fs; retried with time-outs %ds/%ds", first[ob].Status, first[ob].Secs, cfg2.fastSec, cfg2.fullSec)}, ob.Result.Attempt...)
				w.retried++
				w.retriedIDs = append(w.retriedIDs, ob.ID)
			}
		}
	}
	return report(w, o, results, time.Since(t0).Seconds())
}


type KnownFinding struct {
	Properties []string `json:"properties"`
	Obligation string   `json:"obligation"`
	Status     string   `json:"status"` // open | fixed
	Commit     string   `json:"commit,omitempty"`
	What       string   `json:"what"`
	Witness    string   `json:"witness,omitempty"`
}

type KnownFindings struct {
	Findings []KnownFinding `json:"findings"`
}

func loadKnownFindings() *KnownFindings {
	kf := &KnownFindings{}
	data, err := os.ReadFile(filepath.Join(verifRoot(), "known_findings.json"))
	if err == nil {
		if err := json.Unmarshal(data, kf); err != nil {
			fmt.Fprintln(os.Stderr, "known_findings.json:", err)
		}
	}
	return kf
}

func (kf *KnownFindings) open(property, obligation string) *KnownFinding {
	for i := range kf.Findings {
		f := &kf.Findings[i]
		if f.Status != "open" || f.Obligation != obligation {
			continue
		}
		for _, p := range f.Properties {
			if p == property {
				return f
			}
		}
	}
	return nil
}

type oblReport struct {
	ID     string  `json:"id"`
	Kind   string  `json:"kind"`
	Clause string  `json:"clause,omitempty"`
	Status string  `json:"status"`
	Solver string  `json:"solver,omitempty"`
	Secs   float64 `json:"secs"`
	MaxQ   float64 `json:"slowest_query_secs,omitempty"`
	Pos    string  `json:"pos,omitempty"`
}

type funcReport struct {
	Name        string   `json:"name"`
	File        string   `json:"contract_file"`
	Requires    int      `json:"requires"`
	Ensures     int      `json:"ensures"`
	Invariants  int      `json:"loop_invariants"`
	Obligations int      `json:"obligations"`
	Abstracted  []string `json:"abstracted_calls,omitempty"`
}

func report(w *World, o *checkOpts, results []*JobResult, wall float64) int {
	kf := loadKnownFindings()
	total, discharged, undecided := 0, 0, 0
	bySolver := map[string]int{}
	secsBySolver := map[string]float64{}
	var fails, known, bounded []*Obligation
	var failJobs []*JobResult
	var all []oblReport
	var funcs []funcReport
	trusted := map[string]bool{}
	inlined := map[string]bool{}
	usedContracts := map[string]bool{}
	boundedLoops := map[string]int{}
	abstracted := map[string][]string{}
	var deferred, unproved []string
	exit := 0
	vacuityOK := 0
	// a known finding is tolerated only while the clause "<label>.actual"
	// (which pins down the known, deviant behaviour exactly) still holds;
	// otherwise the failure is a different violation and is reported
	status := map[string]string{}
	for _, jr := range results {
		for _, ob := range jr.Obls {
			status[ob.ID] = ob.Result.Status
		}
	}
	stillKnown := func(id string) bool {
		s, ok := status[id+".actual"]
		return !ok || s == "unsat"
	}
	for _, jr := range results {
		if jr.Err != "" {
			fmt.Printf("UNDECIDED property=%s reason=%s function=%s\n", o.property, strings.ReplaceAll(jr.Err, "\n", " "), jr.Name)
			undecided++
			exit = 2
			continue
		}
		for _, t := range jr.Trusted {
			trusted[t] = true
		}
		for _, t := range jr.Inlined {
			inlined[t] = true
		}
		for _, t := range jr.Used {
			usedContracts[t] = true
		}
		for k, v := range jr.Bounded {
			boundedLoops[k] = v
		}
		for k, v := range jr.Abstracted {
			abstracted[k] = v
		}
		deferred = append(deferred, jr.Deferred...)
		fr := funcReport{Name: jr.Name}
		if jr.Contract != nil {
			fr.File = strings.TrimPrefix(jr.Contract.File, w.repo+"/")
			fr.Requires, fr.Ensures = len(jr.Contract.Requires), len(jr.Contract.Ensures)
			for _, l := range jr.Contract.Loops {
				fr.Invariants += len(l.Inv)
			}
			fr.Abstracted = jr.Abstracted[jr.Name]
		}
		for _, ob := range jr.Obls {
			if ob.Kind == "vacuity" {
				if ob.Result.Status != "sat" {
					fmt.Printf("UNDECIDED property=%s reason=vacuous-precondition function=%s (%s)\n", o.property, jr.Name, ob.Result.Status)
					undecided++
					exit = 2
				} else {
					vacuityOK++
				}
				continue
			}
			fr.Obligations++
			pos := ""
			if ob.Pos.IsValid() {
				pos = fmt.Sprintf("%s:%d", strings.TrimPrefix(ob.Pos.Filename, w.repo+"/"), ob.Pos.Line)
			}
			all = append(all, oblReport{ID: ob.ID, Kind: ob.Kind, Clause: ob.Desc, Status: ob.Result.Status, Solver: ob.Result.Solver, Secs: ob.Result.Secs, MaxQ: ob.Result.MaxQ, Pos: pos})
			if ob.Bounded {
				bounded = append(bounded, ob)
				if ob.Result.Status != "unsat" {
					fails = append(fails, ob)
					failJobs = append(failJobs, jr)
				}
				continue
			}
			if ob.Result.Status == "unsat" {
				total++
				discharged++
				bySolver[ob.Result.Solver]++
				secsBySolver[ob.Result.Solver] += ob.Result.Secs
			} else if ob.Kind == "safety" && ob.Cut && jr.Contract != nil && jr.Contract.Abstracted && (ob.Label == "nil" || ob.Label == "typeassert") {
				// the shape of heap objects behind an abstracted call is unknown: a
				// refuted nil / type test there is "not proved", not a violation.
				// Index, slice and allocation bounds depend on integer state the
				// contract does constrain: their refutations are reported.
				unproved = append(unproved, ob.ID)
			} else if f := kf.open(o.property, ob.ID); f != nil && stillKnown(ob.ID) {
				known = append(known, ob)
				fmt.Printf("KNOWN-FINDING: property=%s %s: %s\n", o.property, ob.ID, f.What)
			} else {
				total++
				fails = append(fails, ob)
				failJobs = append(failJobs, jr)
			}
			if o.verbose {
				fmt.Printf("  %-8s %-10s %6.2fs %s  %s\n", ob.Result.Status, ob.Result.Solver, ob.Result.Secs, ob.ID, ob.Desc)
			}
		}
		funcs = append(funcs, fr)
	}
	// violations: replay every failed obligation on the real code
	violations := 0
	for i, ob := range fails {
		jr := failJobs[i]
		fmt.Printf("FAILED %s [%s by %s %.2fs] %s (%s:%d)\n", ob.ID, ob.Result.Status, ob.Result.Solver, ob.Result.Secs, ob.Desc, filepath.Base(ob.Pos.Filename), ob.Pos.Line)
		if o.verbose {
			fmt.Printf("      attempts: %v\n", ob.Result.Attempt)
			if ob.Result.Status == "sat" {
				printModel(jr, ob)
			}
		}
		path, confirmed := writeReplay(w, o, jr, ob)
		violations++
		suffix := ""
		if !confirmed {
			suffix = " no-failing-input-found"
		}
		fmt.Printf("VIOLATION property=%s replay=%s%s\n", o.property, path, suffix)
	}
	fmt.Printf("property=%s tier=%s functions=%d obligations=%d discharged=%d failed=%d known=%d bounded=%d unproved_swept=%d undecided=%d wall=%.1fs solvers=%v\n",
		o.property, o.tier, len(results), total, discharged, len(fails), len(known), len(bounded), len(unproved), undecided, wall, bySolver)
	if len(fails) > 0 && exit == 0 {
		exit = 1
	}
	// evidence describes a run on /repo; runs on a scratch copy (--repo, used for
	// seeded changes) must not overwrite it
	if o.property != "" && o.funcs == "" && filepath.Clean(o.repo) == "/repo" {
		writeEvidence(w, o, evidenceInput{all: all, funcs: funcs, total: total, discharged: discharged, violations: violations, known: known, bounded: bounded,
			bySolver: bySolver, secsBySolver: secsBySolver, trusted: trusted, inlined: inlined, used: usedContracts, boundedLoops: boundedLoops,
			abstracted: abstracted, deferred: deferred, unproved: unproved, wall: wall, undecided: undecided, vacuityOK: vacuityOK})
	}
	return exit
}

type evidenceInput struct {
	all          []oblReport
	funcs        []funcReport
	total        int
	discharged   int
	violations   int
	known        []*Obligation
	bounded      []*Obligation
	bySolver     map[string]int
	secsBySolver map[string]float64
	trusted      map[string]bool
	inlined      map[string]bool
	used         map[string]bool
	boundedLoops map[string]int
	abstracted   map[string][]string
	deferred     []string
	unproved     []string
	wall         float64
	undecided    int
	vacuityOK    int
}

func keysOf(m map[string]bool) []string {
	var ks []string
	for k := range m {
		ks = append(ks, k)
	}
	sort.Strings(ks)
	return ks
}

func writeEvidence(w *World, o *checkOpts, in evidenceInput) {
	seed := int64(0)
	fmt.Sscan(os.Getenv("VERIF_SEED"), &seed)
	sorted := append([]oblReport{}, in.all...)
	sort.Slice(sorted, func(i, j int) bool { return sorted[i].Secs > sorted[j].Secs })
	slowest := sorted
	if len(slowest) > 5 {
		slowest = slowest[:5]
	}
	// samples: up to three non-trivial discharged obligations written out
	var samples []oblReport
	for _, k := range []string{"ensures", "invariant", "assert", "lemma", "requires", "safety"} {
		for _, ob := range in.all {
			if ob.Kind == k && ob.Status == "unsat" && ob.Solver != "simplifier" && len(samples) < 3 {
				samples = append(samples, ob)
				break
			}
		}
	}
	if len(samples) == 0 && len(in.all) > 0 {
		samples = append(samples, in.all[0])
	}
	trustedBase := []string{
		"govc itself: SSA-to-SMT translation, intrinsic models, memory model (DESIGN A1)",
		"go/ssa (x/tools v0.29.0) lowers the source as the compiler does (A2)",
		"amd64 / little-endian / gc struct layout; allocations fresh, disjoint, zeroed, never fail (A3)",
		"z3 4.8.12, z3 5.1.0 (z3-new), cvc5 1.0.x answer unsat only for unsatisfiable queries (A4)",
	}
	trustedBase = append(trustedBase, keysOf(in.trusted)...)
	var notUnder []string
	for _, cs := range w.csets {
		notUnder = append(notUnder, cs.NotUnder[o.property]...)
	}
	var knownIDs, boundedIDs []string
	for _, ob := range in.known {
		knownIDs = append(knownIDs, ob.ID)
	}
	for _, ob := range in.bounded {
		boundedIDs = append(boundedIDs, ob.ID)
	}
	byKind := map[string]int{}
	for _, ob := range in.all {
		byKind[ob.Kind]++
	}
	cov := map[string]interface{}{
		"obligations":              in.total,
		"discharged":               in.discharged,
		"checker_cmd":              fmt.Sprintf("./bin/govc check --property %s --tier %s", o.property, o.tier),
		"trusted_base":             trustedBase,
		"functions_under_contract": in.funcs,
		"obligations_by_kind":      byKind,
		"by_solver":                in.bySolver,
		"solver_seconds":           in.secsBySolver,
		"slowest":                  slowest,
		"samples":                  samples,
		"known_findings":           knownIDs,
		"bounded_obligations":      boundedIDs,
		"bounded_loops":            in.boundedLoops,
		"inlined_functions":        keysOf(in.inlined),
		"callee_contracts_used":    keysOf(in.used),
		"abstracted_calls":         in.abstracted,
		"not_under_contract":       notUnder,
		"deferred_to_thorough":     in.deferred,
		"retried_with_longer_timeouts": w.retried,
		"retried_obligations":          w.retriedIDs,
		"unproved_swept":           in.unproved,
		"vacuity_guards_sat":       in.vacuityOK,
		"undecided":                in.undecided,
		"integer_semantics":        "fixed-width two's-complement bit-vectors of the real width; no mathematical integers",
	}
	ev := map[string]interface{}{
		"property_id": o.property,
		"tier":        o.tier,
		"seed":        seed,
		"level":       "proof",
		"coverage":    cov,
		"assumptions": trustedBase,
		"wall_s":      in.wall,
		"violations":  in.violations,
	}
	if err := writeJSON(filepath.Join(verifRoot(), "evidence", o.property+".json"), ev); err != nil {
		fmt.Fprintln(os.Stderr, "evidence:", err)
	}
}

// writeReplay replays a failed obligation and stores the replay file.
func writeReplay(w *World, o *checkOpts, jr *JobResult, ob *Obligation) (string, bool) {
	rf := ReplayFile{Property: o.property, Obligation: ob.ID, Kind: ob.Kind, Clause: ob.Desc, Function: jr.Name,
		Solver: ob.Result.Solver, Status: ob.Result.Status}
	if ob.Pos.IsValid() {
		rf.Position = fmt.Sprintf("%s:%d", ob.Pos.Filename, ob.Pos.Line)
	}
	raw := ob.Result.Raw
	if len(raw) > 4000 {
		raw = raw[:4000]
	}
	rf.SolverOut = strings.Join(ob.Result.Attempt, " ") + "\n" + raw
	confirmed := false
	if o.noReplay {
		rf.Note = "replay disabled"
	} else if ob.Result.Status == "sat" && jr.Kind == "func" {
		rf.Model = namedModel(jr, ob)
		fn := w.funcs[jr.Name]
		src, why := buildReplay(w, fn, jr.Contract, ob, rf.Model)
		if src == "" {
			rf.Note = why
		} else {
			dir := ""
			for _, cs := range w.csets {
				if fn.Pkg != nil && cs.Pkg == fn.Pkg.Pkg.Name() {
					dir = cs.Dir
				}
			}
			rf.PkgDir, rf.TestSource = dir, src
			out, _ := runReplay(dir, src)
			if len(out) > 6000 {
				out = out[:6000]
			}
			rf.Output = out
			confirmed, rf.Note = replayVerdict(ob.Kind, out)
			if !confirmed && (ob.Cut || ob.Kind != "safety") && jr.Contract != nil && jr.Contract.ReplayTpl == "" {
				rf.Note += "; the path crosses a loop cut or a callee contract, or the clause has no executable oracle"
			}
		}
	} else if ob.Result.Status != "sat" {
		rf.Note = "solver gave no model (" + ob.Result.Status + ")"
	}
	rf.Confirmed = confirmed
	dir := filepath.Join(verifRoot(), "replays", o.property)
	path := filepath.Join(dir, sanitizeFile(ob.ID)+".json")
	if err := writeJSON(path, rf); err != nil {
		fmt.Fprintln(os.Stderr, "replay file:", err)
	}
	return path, confirmed
}

// namedModel maps input names to model values.
func namedModel(jr *JobResult, ob *Obligation) map[string]string {
	m := map[string]string{}
	for i, n := range jr.Inputs {
		if v, ok := ob.Result.Model[fmt.Sprint(i)]; ok {
			m[n] = v
		}
	}
	return m
}

func printModel(jr *JobResult, ob *Obligation) {
	var bytesOf = map[string][]byte{}
	for i, n := range jr.Inputs {
		v, ok := ob.Result.Model[fmt.Sprint(i)]
		if !ok {
			continue
		}
		if j := strings.Index(n, "["); j > 0 && strings.HasSuffix(n, "]") {
			var b uint64
			fmt.Sscanf(strings.TrimPrefix(v, "#x"), "%x", &b)
			bytesOf[n[:j]] = append(bytesOf[n[:j]], byte(b))
			continue
		}
		fmt.Printf("      %s = %s\n", n, v)
	}
	for n, bs := range bytesOf {
		fmt.Printf("      %s[0:%d] = %q\n", n, len(bs), bs)
	}
}

func writeJSON(path string, v interface{}) error {
	data, err := json.MarshalIndent(v, "", " ")
	if err != nil {
		return err
	}
	os.MkdirAll(filepath.Dir(path), 0o755)
	return os.WriteFile(path, append(data, '\n'), 0o644)
}
