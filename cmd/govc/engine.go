package main

import (
	"fmt"
	"go/types"
	"os"
	"path/filepath"
	"sort"
	"strings"
	"sync"

	"golang.org/x/tools/go/packages"
	"golang.org/x/tools/go/ssa"
	"golang.org/x/tools/go/ssa/ssautil"
)

// World is what is shared between verification jobs (read-only after load).
type World struct {
	retried int // obligations decided only in the second pass (extended time-outs)
	retriedIDs []string
	repo   string
	prog   *ssa.Program
	pkgs   map[string]*ssa.Package // by package name (json, proto, ...)
	csets  []*ContractSet
	specs  map[string]*SpecFunc
	funcs  map[string]*ssa.Function // by short name
	images map[string]*GlobalImage  // "pkg.name" -> runtime image
	tier   string
	property string
	mu     sync.Mutex
}

// Engine holds the state of one verification job (one function or lemma).
type Engine struct {
	w     *World
	dynVals bool // fresh values are being made for something produced during the call (see valLimit)
	tb    *TB
	mc    *MemCtx
	prog  *ssa.Program
	csets []*ContractSet
	specs map[string]*SpecFunc

	assumes []*Term
	obls    []*Obligation
	trivial int

	rom       map[*Term][]*Term
	strConsts map[string]*Term
	regions   []allocRec
	globals   map[*Term]*ssa.Global
	fnHandles map[*ssa.Function]*Term
	typeIDs   map[string]*Term
	typeByID  map[*Term]types.Type

	top            *Frame
	topModifies    []allocRec
	topRegionStart int
	topSplits      []*Term
	specMemo       map[[2]int]*specEntry
	topGhostMods   []designator

	abstracted    map[string][]string
	inlined       map[string]bool
	trusted       map[string]bool
	usedContracts map[string]bool
	boundedLoops  map[string]int
	pureCache     map[*ssa.Function]bool

	noSafety      bool
	maxNodes      int
	autoInlineMax int
	inputs        []*Term // terms whose model values identify a counterexample
	inputNames    []string
	specCallCache map[string]SV
	deferred      []string // clauses only checked in the thorough tier
	skolemPool    []*Term
	lazy          []*lazyHyp
	eagerConstInst bool
}

func loadWorld(repo string, pkgPatterns []string) (*World, error) {
	cfg := &packages.Config{
		Mode:       packages.LoadAllSyntax,
		Dir:        repo,
		BuildFlags: []string{"-tags=verif"},
		Env: append(os.Environ(), "GOFLAGS=-mod=mod", "GOPROXY=off", "GOSUMDB=off", "GOTOOLCHAIN=local",
			"GOWORK=off"),
	}
	initial, err := packages.Load(cfg, pkgPatterns...)
	if err != nil {
		return nil, err
	}
	nerr := 0
	packages.Visit(initial, nil, func(p *packages.Package) {
		for _, e := range p.Errors {
			fmt.Fprintf(os.Stderr, "load: %s: %v\n", p.PkgPath, e)
			nerr++
		}
	})
	if nerr > 0 {
		return nil, fmt.Errorf("%d package load errors", nerr)
	}
	prog, pkgs := ssautil.AllPackages(initial, ssa.GlobalDebug|ssa.InstantiateGenerics)
	prog.Build()
	w := &World{repo: repo, prog: prog, pkgs: map[string]*ssa.Package{}, specs: map[string]*SpecFunc{}, funcs: map[string]*ssa.Function{},
		images: map[string]*GlobalImage{}}
	for i, p := range initial {
		if pkgs[i] == nil {
			continue
		}
		w.pkgs[p.Name] = pkgs[i]
		dir := ""
		if len(p.GoFiles) > 0 {
			dir = filepath.Dir(p.GoFiles[0])
		}
		cs, err := loadContracts(dir, p.Name)
		if err != nil {
			return nil, err
		}
		w.csets = append(w.csets, cs)
		for n, s := range cs.Specs {
			if _, dup := w.specs[n]; dup {
				return nil, fmt.Errorf("spec %s defined twice", n)
			}
			w.specs[n] = s
		}
	}
	// index every function (incl. methods, closures) of every package by short name
	// (short names can collide with the standard library, e.g. encoding/json:
	// the packages loaded for verification win)
	own := map[*ssa.Package]bool{}
	for _, p := range w.pkgs {
		own[p] = true
	}
	for fn := range ssautil.AllFunctions(prog) {
		n := fnName(fn)
		if prev, dup := w.funcs[n]; dup && own[prev.Pkg] && !own[fn.Pkg] {
			continue
		}
		if prev, dup := w.funcs[n]; dup && own[prev.Pkg] == own[fn.Pkg] && prev.String() < fn.String() {
			continue // deterministic choice among equals
		}
		w.funcs[n] = fn
	}
	return w, nil
}

const modelBytes = 48

func paramName(n string, i int) string {
	if n == "" || n == "_" {
		return fmt.Sprintf("arg%d", i)
	}
	return n
}

func (w *World) newEngine() *Engine {
	tb := NewTB()
	e := &Engine{w: w, tb: tb, mc: NewMemCtx(tb), prog: w.prog, csets: w.csets, specs: w.specs,
		rom: map[*Term][]*Term{}, strConsts: map[string]*Term{}, globals: map[*Term]*ssa.Global{},
		fnHandles: map[*ssa.Function]*Term{}, typeIDs: map[string]*Term{}, typeByID: map[*Term]types.Type{},
		abstracted: map[string][]string{}, inlined: map[string]bool{}, trusted: map[string]bool{}, usedContracts: map[string]bool{},
		specCallCache: map[string]SV{}, boundedLoops: map[string]int{}, pureCache: map[*ssa.Function]bool{}, maxNodes: 20000, autoInlineMax: 60}
	e.mc.rom = e.romLookup
	e.skolemPool = []*Term{tb.Var("sk!0", BV(64)), tb.Var("sk!1", BV(64))}
	e.eagerConstInst = true
	return e
}

func (e *Engine) findGlobal(v *types.Var) *ssa.Global {
	if v.Pkg() == nil {
		return nil
	}
	if p := e.prog.Package(v.Pkg()); p != nil {
		if g, ok := p.Members[v.Name()].(*ssa.Global); ok {
			return g
		}
	}
	return nil
}

func (e *Engine) findGlobalByName(pkg, name string) *ssa.Global {
	for _, p := range e.prog.AllPackages() {
		if p.Pkg.Name() == pkg {
			if g, ok := p.Members[name].(*ssa.Global); ok {
				return g
			}
		}
	}
	return nil
}

func (e *Engine) findConstByName(pkg, name string) *types.Const {
	for _, p := range e.prog.AllPackages() {
		if p.Pkg.Name() == pkg {
			if c, ok := p.Pkg.Scope().Lookup(name).(*types.Const); ok {
				return c
			}
		}
	}
	return nil
}

func (e *Engine) findType(name string) types.Type {
	i := strings.LastIndex(name, ".")
	if i < 0 {
		return nil
	}
	ptr := strings.HasPrefix(name, "*")
	pkg, tn := strings.TrimPrefix(name[:i], "*"), name[i+1:]
	for _, p := range e.prog.AllPackages() {
		if p.Pkg.Name() == pkg {
			if o, ok := p.Pkg.Scope().Lookup(tn).(*types.TypeName); ok {
				if ptr {
					return types.NewPointer(o.Type())
				}
				return o.Type()
			}
		}
	}
	return nil
}

// importGlobal gives package-level variables their contents: error-typed
// sentinels become distinct non-nil interface values; variables listed in a
// "global" directive get the image dumped from the real, initialised package.
func (e *Engine) importGlobal(g *ssa.Global, addr *Term) {
	tb := e.tb
	t := g.Type().Underlying().(*types.Pointer).Elem()
	key := g.Pkg.Pkg.Name() + "." + g.Name()
	if img, ok := e.w.images[key]; ok {
		e.rom[addr] = e.imageBytes(img, key)
		return
	}
	if it, ok := t.Underlying().(*types.Interface); ok && it.NumMethods() == 1 && it.Method(0).Name() == "Error" {
		// an error sentinel: (type word, data word) unique to this variable
		n := uint64(len(e.globals))
		typ := tb.ConstU(0x7d0000000000+n*64, 64)
		data := tb.ConstU(0x1c0000000000+n*64, 64) // below preLimit: sentinels pre-exist
		var bs []*Term
		for i := 0; i < 8; i++ {
			bs = append(bs, tb.Extract(i*8+7, i*8, typ))
		}
		for i := 0; i < 8; i++ {
			bs = append(bs, tb.Extract(i*8+7, i*8, data))
		}
		e.rom[addr] = bs
		e.trusted["package-level error variables are never reassigned and are pairwise distinct"] = true
	}
}

func (e *Engine) imageBytes(img *GlobalImage, hint string) []*Term {
	tb := e.tb
	bs := make([]*Term, len(img.Bytes))
	for i, b := range img.Bytes {
		bs[i] = tb.ConstU(uint64(b), 8)
	}
	for _, o := range img.Opaque {
		for i := o[0]; i < o[0]+o[1] && i < len(bs); i++ {
			bs[i] = tb.Fresh(fmt.Sprintf("opaque.%s.%d", hint, i), BV(8))
		}
	}
	for k, p := range img.Ptrs {
		var pv *Term
		if p.Target == nil {
			continue
		}
		pv = tb.Fresh(fmt.Sprintf("rom.%s.%d", hint, k), BV(64))
		e.assume(tb.Ult(tb.ConstU(4096, 64), pv))
		e.assume(tb.Ult(pv, tb.ConstU(preLimit-(1<<32), 64)))
		e.rom[pv] = e.imageBytes(p.Target, fmt.Sprintf("%s.%d", hint, k))
		for i := 0; i < 8; i++ {
			bs[p.Off+i] = tb.Extract(i*8+7, i*8, pv)
		}
	}
	e.trusted["imported package-level tables are never written after package initialisation"] = true
	return bs
}

// ---------------------------------------------------------------------------

type JobResult struct {
	Name       string
	Kind       string // func | lemma
	Contract   *Contract
	Obls       []*Obligation
	Trivial    int
	Abstracted map[string][]string
	Inlined    []string
	Trusted    []string
	Used       []string
	Bounded    map[string]int
	Err        string
	engine     *Engine
	Inputs     []string
	Deferred   []string
}

func (w *World) verifyFunc(name string, con *Contract) (jr *JobResult) {
	jr = &JobResult{Name: name, Kind: "func", Contract: con}
	defer func() {
		if r := recover(); r != nil {
			if se, ok := r.(specError); ok {
				jr.Err = "contract error: " + se.msg
			} else {
				jr.Err = fmt.Sprint(r)
				if os.Getenv("GOVC_DEBUG") != "" {
					panic(r)
				}
			}
		}
	}()
	fn := w.funcs[name]
	if fn == nil {
		jr.Err = "contract-target-missing: no function " + name
		return
	}
	if len(fn.Blocks) == 0 {
		jr.Err = "contract-target-missing: function has no body: " + name
		return
	}
	e := w.newEngine()
	jr.engine = e
	e.noSafety = con.NoSafety
	if con.NoEager {
		e.eagerConstInst = false
	}
	f := e.newFrame(fn, con, true, 0)
	e.top = f
	tb := e.tb
	// symbolic inputs
	var inv []*Term
	args := make([]Val, len(fn.Params))
	for i, p := range fn.Params {
		args[i] = e.freshVal(paramName(p.Name(), i), p.Type(), &inv)
		e.addInputs(paramName(p.Name(), i), args[i])
	}
	free := make([]Val, len(fn.FreeVars))
	for i, p := range fn.FreeVars {
		free[i] = e.freshVal("free."+p.Name(), p.Type(), &inv)
		e.addInputs("free."+p.Name(), free[i])
	}
	for _, t := range inv {
		e.assume(t)
	}
	// captured variables are cells that exist: their addresses are never nil
	for i, p := range fn.FreeVars {
		if s, ok := free[i].(Scalar); ok {
			if _, isPtr := p.Type().Underlying().(*types.Pointer); isPtr {
				e.assume(tb.Ne(s.T, tb.ConstU(0, 64)))
			}
		}
	}
	// parameter regions: fresh allocations are disjoint from them
	for i, p := range fn.Params {
		switch v := args[i].(type) {
		case SliceV:
			esz := sizes.Sizeof(p.Type().Underlying().(*types.Slice).Elem())
			e.regions = append(e.regions, allocRec{v.Ptr, tb.Mul(v.Cap, tb.ConstU(uint64(esz), 64))})
		case StringV:
			e.regions = append(e.regions, allocRec{v.Ptr, v.Len})
		case Scalar:
			if pt, ok := p.Type().Underlying().(*types.Pointer); ok {
				e.regions = append(e.regions, allocRec{v.T, tb.ConstU(uint64(sizes.Sizeof(pt.Elem())), 64)})
			}
		}
	}
	mem0 := e.mc.Base("mem0")
	// the pre-state heap is well typed: pointers, slices, strings and
	// interface words stored in objects the parameters point to denote
	// pre-existing memory (below preLimit)
	for i, p := range fn.Params {
		if s, ok := args[i].(Scalar); ok {
			if pt, ok := p.Type().Underlying().(*types.Pointer); ok {
				e.assumeWellTyped(mem0, s.T, pt.Elem(), 2, tb.Ne(s.T, tb.ConstU(0, 64)))
			}
		}
	}
	for i, p := range fn.FreeVars {
		if s, ok := free[i].(Scalar); ok {
			if pt, ok := p.Type().Underlying().(*types.Pointer); ok {
				e.assumeWellTyped(mem0, s.T, pt.Elem(), 2, tb.True())
			}
		}
	}
	gh0 := e.freshGhost("")
	f.params, f.free, f.entryMem, f.entryGh = args, free, mem0, gh0
	sc := f.entryScope(args, free, mem0)
	for _, r := range con.Requires {
		e.assumeClause(sc, r.Expr, r.Text, nil)
	}
	for _, r := range con.Assumes {
		e.assumeClause(sc, r.Expr, r.Text, nil)
		e.trusted["assumption stated on "+name+": "+r.Text] = true
	}
	for _, r := range con.Modifies {
		sc.goal = false
		d := e.evalDesignator(sc, r.Expr, r.Text)
		if d.ghost == "" {
			e.topModifies = append(e.topModifies, allocRec{d.lo, d.n})
		} else {
			e.topGhostMods = append(e.topGhostMods, d)
		}
	}
	e.topRegionStart = len(e.regions)
	if sp := con.Split; sp != nil {
		sc.goal = false
		v := e.evalInt(sc, sp.Expr, sp.Text)
		var any []*Term
		for k := sp.Lo; k <= sp.Hi; k++ {
			c := tb.Eq(v, tb.ConstI(int64(k), v.sort.W))
			e.topSplits = append(e.topSplits, c)
			any = append(any, c)
		}
		e.topSplits = append(e.topSplits, tb.Not(tb.Or(any...)))
	}
	// model extraction: the first bytes of every slice/string parameter
	for i, p := range fn.Params {
		var ptr *Term
		switch v := args[i].(type) {
		case SliceV:
			ptr = v.Ptr
		case StringV:
			ptr = v.Ptr
		}
		if ptr != nil {
			for k := 0; k < modelBytes; k++ {
				e.inputs = append(e.inputs, e.mc.Read8(mem0, tb.Add(ptr, tb.ConstU(uint64(k), 64))))
				e.inputNames = append(e.inputNames, fmt.Sprintf("%s[%d]", paramName(p.Name(), i), k))
			}
		}
	}
	// vacuity guard: the preconditions must be satisfiable
	e.obls = append(e.obls, &Obligation{ID: name + "#vacuity:requires", Kind: "vacuity", Label: "requires", Func: name, Cond: tb.True(), Goal: tb.False(),
		NAssume: len(e.assumes), Desc: "preconditions and type invariants are satisfiable (must be sat)", Props: con.Props})
	f.run(args, free, mem0, gh0, tb.True(), pathFlags{})
	if len(f.rets) == 0 && len(con.Ensures) > 0 {
		jr.Err = "no return reached"
	}
	jr.collect(e)
	return
}

func (f *Frame) entryScope(args, free []Val, mem *Mem) *Scope {
	st := &execState{reach: f.e.tb.True(), env: map[ssa.Value]Val{}, mem: mem, gh: f.entryGh}
	return f.scopeAt(st, nil)
}

func (jr *JobResult) collect(e *Engine) {
	jr.Obls = e.obls
	jr.Trivial = e.trivial
	jr.Abstracted = e.abstracted
	for k := range e.inlined {
		jr.Inlined = append(jr.Inlined, k)
	}
	for k := range e.trusted {
		jr.Trusted = append(jr.Trusted, k)
	}
	for k := range e.usedContracts {
		jr.Used = append(jr.Used, k)
	}
	sort.Strings(jr.Inlined)
	sort.Strings(jr.Trusted)
	sort.Strings(jr.Used)
	jr.Bounded = e.boundedLoops
	jr.Inputs = e.inputNames
	jr.Deferred = e.deferred
}

func (e *Engine) addInputs(name string, v Val) {
	add := func(n string, t *Term) {
		e.inputs = append(e.inputs, t)
		e.inputNames = append(e.inputNames, n)
	}
	switch x := v.(type) {
	case Scalar:
		add(name, x.T)
	case SliceV:
		add(name+".ptr", x.Ptr)
		add(name+".len", x.Len)
		add(name+".cap", x.Cap)
	case StringV:
		add(name+".ptr", x.Ptr)
		add(name+".len", x.Len)
	case IfaceV:
		add(name+".typ", x.Typ)
		add(name+".data", x.Data)
	case StructV:
		for i, fv := range x.Fields {
			e.addInputs(fmt.Sprintf("%s.f%d", name, i), fv)
		}
	case FuncV:
		if x.Handle != nil {
			add(name, x.Handle)
		}
	}
}

// verifyLemma proves a closed formula over its parameters.
func (w *World) verifyLemma(lm *Lemma) (jr *JobResult) {
	name := "lemma " + lm.Label
	jr = &JobResult{Name: name, Kind: "lemma"}
	defer func() {
		if r := recover(); r != nil {
			if se, ok := r.(specError); ok {
				jr.Err = "contract error: " + se.msg
			} else {
				jr.Err = fmt.Sprint(r)
			}
		}
	}()
	e := w.newEngine()
	jr.engine = e
	tb := e.tb
	gh0 := e.freshGhost("")
	sc := &Scope{e: e, vars: map[string]SV{}, mem: e.mc.Base("mem0"), gh: gh0, oldGh: gh0, goal: true}
	for _, p := range lm.Params {
		st, ok := specTypes[p.Type]
		switch {
		case ok:
			t := tb.Fresh(p.Name, BV(st.w))
			sc.vars[p.Name] = SV{k: kInt, t: t, signed: st.signed}
			e.inputs = append(e.inputs, t)
			e.inputNames = append(e.inputNames, p.Name)
		case p.Type == "bool":
			t := tb.Fresh(p.Name, BoolSort)
			sc.vars[p.Name] = SV{k: kBool, t: t}
			e.inputs = append(e.inputs, t)
			e.inputNames = append(e.inputNames, p.Name)
		case p.Type == "bytes":
			var inv []*Term
			v := e.freshVal(p.Name, types.NewSlice(types.Typ[types.Uint8]), &inv)
			for _, t := range inv {
				e.assume(t)
			}
			sc.vars[p.Name] = SV{k: kVal, v: v, gt: types.NewSlice(types.Typ[types.Uint8])}
			e.addInputs(p.Name, v)
		case p.Type == "string":
			var inv []*Term
			v := e.freshVal(p.Name, types.Typ[types.String], &inv)
			for _, t := range inv {
				e.assume(t)
			}
			sc.vars[p.Name] = SV{k: kVal, v: v, gt: types.Typ[types.String]}
			e.addInputs(p.Name, v)
		default:
			jr.Err = "lemma parameter type " + p.Type
			return
		}
	}
	g := e.evalBool(sc, lm.Expr, lm.Text)
	e.obls = append(e.obls, &Obligation{ID: "lemma#" + lm.Label, Kind: "lemma", Label: lm.Label, Func: name, Cond: tb.True(), Goal: g,
		NAssume: len(e.assumes), Desc: lm.Text, Props: lm.Props})
	jr.collect(e)
	return
}

// assumeWellTyped adds the type invariants of the object of type t stored at
// addr in the pre-state (guarded by cond, typically addr != nil).
func (e *Engine) assumeWellTyped(m *Mem, addr *Term, t types.Type, depth int, cond *Term) {
	tb := e.tb
	lim := tb.ConstU(preLimit-(1<<32), 64)
	switch u := t.Underlying().(type) {
	case *types.Struct:
		offs := structOffsets(u)
		for i := 0; i < u.NumFields(); i++ {
			e.assumeWellTyped(m, tb.Add(addr, tb.ConstU(uint64(offs[i]), 64)), u.Field(i).Type(), depth, cond)
		}
	case *types.Array:
		if u.Len() <= 4 {
			esz := sizes.Sizeof(u.Elem())
			for i := int64(0); i < u.Len(); i++ {
				e.assumeWellTyped(m, tb.Add(addr, tb.ConstU(uint64(i*esz), 64)), u.Elem(), depth, cond)
			}
		}
	case *types.Pointer:
		v := e.mc.ReadLE(m, addr, 64)
		e.assume(tb.Implies(cond, tb.Ult(v, lim)))
		if depth > 0 {
			e.assumeWellTyped(m, v, u.Elem(), depth-1, tb.And(cond, tb.Ne(v, tb.ConstU(0, 64))))
		}
	case *types.Map, *types.Chan, *types.Signature:
		e.assume(tb.Implies(cond, tb.Ult(e.mc.ReadLE(m, addr, 64), lim)))
	case *types.Basic:
		switch {
		case u.Kind() == types.UnsafePointer:
			e.assume(tb.Implies(cond, tb.Ult(e.mc.ReadLE(m, addr, 64), lim)))
		case u.Kind() == types.String:
			s := StringV{e.mc.ReadLE(m, addr, 64), e.mc.ReadLE(m, tb.Add(addr, tb.ConstU(8, 64)), 64)}
			for _, iv := range e.stringInv(s) {
				e.assume(tb.Implies(cond, iv))
			}
		}
	case *types.Slice:
		s := SliceV{e.mc.ReadLE(m, addr, 64), e.mc.ReadLE(m, tb.Add(addr, tb.ConstU(8, 64)), 64), e.mc.ReadLE(m, tb.Add(addr, tb.ConstU(16, 64)), 64)}
		for _, iv := range e.sliceInv(s, sizes.Sizeof(u.Elem())) {
			e.assume(tb.Implies(cond, iv))
		}
	case *types.Interface:
		e.assume(tb.Implies(cond, tb.Ult(e.mc.ReadLE(m, tb.Add(addr, tb.ConstU(8, 64)), 64), lim)))
	}
}
