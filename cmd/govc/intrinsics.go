package main

// Exact bit-level models of a few stdlib functions (assumption A7 in DESIGN).

import (
	"go/token"
	"strings"
)

type intrinsic func(f *Frame, st *execState, args []Val, pos token.Pos) Val

var intrinsics map[string]intrinsic
var intrinsicPure = map[string]bool{}

func init() {
	intrinsics = map[string]intrinsic{}
	reg := func(name string, pure bool, h intrinsic) {
		intrinsics[name] = h
		intrinsicPure[name] = pure
	}
	bitlen := func(w int) intrinsic {
		return func(f *Frame, st *execState, args []Val, pos token.Pos) Val {
			return Scalar{f.e.bitLen(args[0].(Scalar).T, 64)}
		}
	}
	reg("bits.Len64", true, bitlen(64))
	reg("bits.Len32", true, bitlen(32))
	reg("bits.Len16", true, bitlen(16))
	reg("bits.Len8", true, bitlen(8))
	reg("bits.Len", true, bitlen(64))
	ctz := func(f *Frame, st *execState, args []Val, pos token.Pos) Val {
		return Scalar{f.e.ctz(args[0].(Scalar).T, 64)}
	}
	reg("bits.TrailingZeros64", true, ctz)
	reg("bits.TrailingZeros32", true, ctz)
	reg("bits.TrailingZeros", true, ctz)
	reg("bits.LeadingZeros64", true, func(f *Frame, st *execState, args []Val, pos token.Pos) Val {
		tb := f.e.tb
		return Scalar{tb.Sub(tb.ConstU(64, 64), f.e.bitLen(args[0].(Scalar).T, 64))}
	})
	reg("bits.LeadingZeros32", true, func(f *Frame, st *execState, args []Val, pos token.Pos) Val {
		tb := f.e.tb
		return Scalar{tb.Sub(tb.ConstU(32, 64), f.e.bitLen(args[0].(Scalar).T, 64))}
	})
	reg("bits.ReverseBytes64", true, func(f *Frame, st *execState, args []Val, pos token.Pos) Val {
		return Scalar{f.e.bswap(args[0].(Scalar).T)}
	})
	reg("bits.ReverseBytes32", true, func(f *Frame, st *execState, args []Val, pos token.Pos) Val {
		return Scalar{f.e.bswap(args[0].(Scalar).T)}
	})
	reg("bits.ReverseBytes16", true, func(f *Frame, st *execState, args []Val, pos token.Pos) Val {
		return Scalar{f.e.bswap(args[0].(Scalar).T)}
	})

	// encoding/binary fixed-width accessors; args[0] is the (empty) receiver
	get := func(w int, big bool) intrinsic {
		return func(f *Frame, st *execState, args []Val, pos token.Pos) Val {
			e := f.e
			tb := e.tb
			b := args[len(args)-1].(SliceV)
			f.safety(st, "index", tb.Ule(tb.ConstU(uint64(w/8), 64), b.Len), pos, "binary accessor: slice long enough")
			v := e.mc.ReadLE(st.mem, b.Ptr, w)
			if big {
				v = e.bswap(v)
			}
			return Scalar{v}
		}
	}
	put := func(w int, big bool) intrinsic {
		return func(f *Frame, st *execState, args []Val, pos token.Pos) Val {
			e := f.e
			tb := e.tb
			b := args[len(args)-2].(SliceV)
			v := args[len(args)-1].(Scalar).T
			f.safety(st, "index", tb.Ule(tb.ConstU(uint64(w/8), 64), b.Len), pos, "binary accessor: slice long enough")
			if big {
				v = e.bswap(v)
			}
			f.frameCheck(st, b.Ptr, tb.ConstU(uint64(w/8), 64), pos, "binary.Put")
			st.mem = e.mc.StoreLE(st.mem, b.Ptr, v)
			return nil
		}
	}
	for _, w := range []int{16, 32, 64} {
		ws := map[int]string{16: "16", 32: "32", 64: "64"}[w]
		reg("(binary.littleEndian).Uint"+ws, true, get(w, false))
		reg("(binary.bigEndian).Uint"+ws, true, get(w, true))
		reg("(binary.littleEndian).PutUint"+ws, false, put(w, false))
		reg("(binary.bigEndian).PutUint"+ws, false, put(w, true))
	}

	// math.Signbit: the top bit; a float32 widened to float64 keeps its sign
	reg("math.Signbit", true, func(f *Frame, st *execState, args []Val, pos token.Pos) Val {
		tb := f.e.tb
		x := args[0].(Scalar).T
		if x.op == "app" && strings.HasPrefix(x.name, "f32to64") && len(x.args) == 1 {
			x = x.args[0]
		}
		w := x.sort.W
		return Scalar{tb.Eq(tb.Extract(w-1, w-1, x), tb.ConstU(1, 1))}
	})
	// floats are opaque bit patterns: the bits<->float conversions are the identity
	id := func(f *Frame, st *execState, args []Val, pos token.Pos) Val { return args[0] }
	reg("math.Float64bits", true, id)
	reg("math.Float64frombits", true, id)
	reg("math.Float32bits", true, id)
	reg("math.Float32frombits", true, id)
}
