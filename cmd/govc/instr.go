package main

// Semantics of value-producing SSA instructions.

import (
	"fmt"
	"strings"
	"go/constant"
	"go/token"
	"go/types"
	"math"
	"math/big"

	"golang.org/x/tools/go/ssa"
)

func (f *Frame) execValue(n *xnode, st *execState, ins ssa.Value) Val {
	e := f.e
	tb := e.tb
	c64 := func(v uint64) *Term { return tb.ConstU(v, 64) }
	switch x := ins.(type) {
	case *ssa.BinOp:
		return f.binop(st, x)
	case *ssa.UnOp:
		xv := f.operand(st.env, x.X)
		switch x.Op {
		case token.NOT:
			return Scalar{tb.Not(xv.(Scalar).T)}
		case token.SUB:
			if isFloat(x.Type()) {
				return Scalar{e.floatOp("fneg", bitsOf(x.Type()), bitsOf(x.Type()), xv.(Scalar).T)}
			}
			return Scalar{tb.Neg(xv.(Scalar).T)}
		case token.XOR:
			return Scalar{tb.BVNot(xv.(Scalar).T)}
		case token.MUL:
			if fr, ok := xv.(FieldRefV); ok {
				return getPath(st.env[unpackKey{fr.o}], fr.path)
			}
			addr := xv.(Scalar).T
			f.nilCheck(st, x.X, addr, x.Pos())
			v := e.load(st.mem, addr, x.Type())
			// every slice / string value of a well-typed program has
			// 0 <= len (<= cap); not assumed for values reinterpreted through
			// unsafe.Pointer conversions
			if _, viaUnsafe := x.X.(*ssa.Convert); !viaUnsafe {
				switch s := v.(type) {
				case SliceV:
					e.assume(tb.Implies(st.reach, tb.And(tb.Sle(tb.ConstU(0, 64), s.Len), tb.Sle(s.Len, s.Cap), tb.Ule(s.Cap, tb.ConstU(addrLimit, 64)))))
				case StringV:
					e.assume(tb.Implies(st.reach, tb.And(tb.Sle(tb.ConstU(0, 64), s.Len), tb.Ule(s.Len, tb.ConstU(addrLimit, 64)))))
				}
			}
			return v
		}
		panic(fmt.Sprintf("unsupported unop %s", x.Op))
	case *ssa.Convert:
		return f.convert(st, x)
	case *ssa.ChangeType:
		return f.operand(st.env, x.X)
	case *ssa.ChangeInterface:
		return f.operand(st.env, x.X)
	case *ssa.MultiConvert:
		panic("unsupported MultiConvert")
	case *ssa.Alloc:
		t := x.Type().Underlying().(*types.Pointer).Elem()
		sz := sizes.Sizeof(t)
		hint := "alloc." + f.fn.Name() + "." + x.Name()
		if x.Comment != "" {
			hint = "alloc." + f.fn.Name() + "." + x.Comment
		}
		p := f.allocate(st, hint, c64(uint64(sz)), true)
		return Scalar{p}
	case *ssa.FieldAddr:
		if o, ok := f.unpackedAt(f.operand(st.env, x.X)); ok {
			stt := o.et.Underlying().(*types.Struct)
			return FieldRefV{o: o, path: []int{x.Field}, typ: stt.Field(x.Field).Type()}
		}
		if fr, ok := f.operand(st.env, x.X).(FieldRefV); ok {
			stt := fr.typ.Underlying().(*types.Struct)
			return FieldRefV{o: fr.o, path: append(append([]int{}, fr.path...), x.Field), typ: stt.Field(x.Field).Type()}
		}
		base := f.operand(st.env, x.X).(Scalar).T
		f.nilCheck(st, x.X, base, x.Pos())
		stt := x.X.Type().Underlying().(*types.Pointer).Elem().Underlying().(*types.Struct)
		off := structOffsets(stt)[x.Field]
		return Scalar{tb.Add(base, c64(uint64(off)))}
	case *ssa.Field:
		sv := f.operand(st.env, x.X).(StructV)
		return sv.Fields[x.Field]
	case *ssa.IndexAddr:
		idx := f.idx64(st, x.Index)
		switch u := x.X.Type().Underlying().(type) {
		case *types.Slice:
			s := f.operand(st.env, x.X).(SliceV)
			f.safety(st, "index", tb.Ult(idx, s.Len), x.Pos(), "slice index in range")
			return Scalar{tb.Add(s.Ptr, tb.Mul(idx, c64(uint64(sizes.Sizeof(u.Elem())))))}
		case *types.Pointer:
			at := u.Elem().Underlying().(*types.Array)
			p := f.operand(st.env, x.X).(Scalar).T
			f.nilCheck(st, x.X, p, x.Pos())
			f.safety(st, "index", tb.Ult(idx, c64(uint64(at.Len()))), x.Pos(), "array index in range")
			return Scalar{tb.Add(p, tb.Mul(idx, c64(uint64(sizes.Sizeof(at.Elem())))))}
		}
		panic("IndexAddr on " + x.X.Type().String())
	case *ssa.Index:
		idx := f.idx64(st, x.Index)
		switch xv := f.operand(st.env, x.X).(type) {
		case ArrayV:
			f.safety(st, "index", tb.Ult(idx, c64(uint64(len(xv.Elems)))), x.Pos(), "array index in range")
			if idx.IsConst() && idx.val.IsUint64() && idx.val.Uint64() < uint64(len(xv.Elems)) {
				return xv.Elems[idx.val.Uint64()]
			}
			r := xv.Elems[len(xv.Elems)-1]
			for i := len(xv.Elems) - 2; i >= 0; i-- {
				r = e.mergeVal(tb.Eq(idx, c64(uint64(i))), xv.Elems[i], r)
			}
			return r
		case StringV:
			f.safety(st, "index", tb.Ult(idx, xv.Len), x.Pos(), "string index in range")
			return Scalar{e.mc.Read8(st.mem, tb.Add(xv.Ptr, idx))}
		}
		panic("Index on " + x.X.Type().String())
	case *ssa.Lookup:
		if _, ok := x.X.Type().Underlying().(*types.Map); ok {
			e.noteAbstract(f, "map lookup")
			st.st.cut = true
			if x.CommaOk {
				return TupleV{[]Val{e.freshVal("maplookup", x.Type().(*types.Tuple).At(0).Type(), nil), Scalar{tb.Fresh("mapok", BoolSort)}}}
			}
			return e.freshVal("maplookup", x.Type(), nil)
		}
		s := f.operand(st.env, x.X).(StringV)
		idx := f.idx64(st, x.Index)
		f.safety(st, "index", tb.Ult(idx, s.Len), x.Pos(), "string index in range")
		return Scalar{e.mc.Read8(st.mem, tb.Add(s.Ptr, idx))}
	case *ssa.Slice:
		return f.sliceOp(st, x)
	case *ssa.SliceToArrayPointer:
		s := f.operand(st.env, x.X).(SliceV)
		at := x.Type().Underlying().(*types.Pointer).Elem().Underlying().(*types.Array)
		f.safety(st, "slice2array", tb.Ule(c64(uint64(at.Len())), s.Len), x.Pos(), "slice long enough for array conversion")
		return Scalar{s.Ptr}
	case *ssa.MakeSlice:
		ln := f.idx64(st, x.Len)
		cp := f.idx64(st, x.Cap)
		esz := sizes.Sizeof(x.Type().Underlying().(*types.Slice).Elem())
		lim := c64(uint64((1 << 45) / max64(esz, 1)))
		f.safety(st, "makeslice", tb.And(tb.Ule(ln, cp), tb.Ule(cp, lim)), x.Pos(), "make: 0 <= len <= cap and cap within allocation limit")
		p := f.allocate(st, "make."+f.fn.Name()+"."+x.Name(), tb.Mul(cp, c64(uint64(esz))), true)
		return SliceV{p, ln, cp}
	case *ssa.Extract:
		return f.operand(st.env, x.Tuple).(TupleV).Elems[x.Index]
	case *ssa.MakeInterface:
		v := f.operand(st.env, x.X)
		return f.makeIface(st, x.X.Type(), v)
	case *ssa.TypeAssert:
		return f.typeAssert(st, x)
	case *ssa.MakeClosure:
		fn := x.Fn.(*ssa.Function)
		free := make([]Val, len(x.Bindings))
		for i, b := range x.Bindings {
			free[i] = f.operand(st.env, b)
		}
		f.closurePreconditions(st, fn, free, x)
		return FuncV{Fn: fn, Free: free, Handle: tb.Fresh("closure."+fn.Name(), BV(64))}
	case *ssa.Call:
		return f.call(st, x)
	case *ssa.MakeMap:
		e.noteAbstract(f, "make map")
		h := tb.Fresh("map", BV(64))
		e.assume(tb.Ne(h, c64(0)))
		return Scalar{h}
	case *ssa.MakeChan:
		panic("unsupported MakeChan")
	case *ssa.Range:
		if _, ok := x.X.Type().Underlying().(*types.Map); ok {
			e.noteAbstract(f, "map range")
			return Scalar{tb.Fresh("mapiter", BV(64))}
		}
		panic("unsupported range over string")
	case *ssa.Next:
		if !x.IsString {
			e.noteAbstract(f, "map iteration")
			st.st.cut = true
			tt := x.Type().(*types.Tuple)
			return TupleV{[]Val{Scalar{tb.Fresh("mapnext.ok", BoolSort)}, e.freshVal("mapnext.k", tt.At(1).Type(), nil), e.freshVal("mapnext.v", tt.At(2).Type(), nil)}}
		}
		panic("unsupported range over string")
	case *ssa.Select:
		panic("unsupported select")
	}
	panic(fmt.Sprintf("%s: unsupported value instruction %T", f.fn.Name(), ins))
}

func max64(a, b int64) int64 {
	if a > b {
		return a
	}
	return b
}

func isFloat(t types.Type) bool {
	b, ok := t.Underlying().(*types.Basic)
	return ok && b.Info()&types.IsFloat != 0
}

// idx64 evaluates an index/length operand as a 64-bit term. A negative signed
// value becomes a huge unsigned one, so "idx <u len" also covers idx >= 0.
func (f *Frame) idx64(st *execState, v ssa.Value) *Term {
	if v == nil {
		return nil
	}
	t := f.operand(st.env, v).(Scalar).T
	if t.sort.W == 64 {
		return t
	}
	if isSigned(v.Type()) {
		return f.e.tb.SExt(t, 64)
	}
	return f.e.tb.ZExt(t, 64)
}

func (f *Frame) nilCheck(st *execState, pv ssa.Value, addr *Term, pos token.Pos) {
	switch pv.(type) {
	case *ssa.Alloc, *ssa.FieldAddr, *ssa.IndexAddr, *ssa.Global:
		return
	}
	f.safety(st, "nil", f.e.tb.Ne(addr, f.e.tb.ConstU(0, 64)), pos, "pointer dereference: "+pv.Name()+" != nil")
}

func (f *Frame) allocate(st *execState, hint string, size *Term, zero bool) *Term {
	e := f.e
	tb := e.tb
	p := tb.Fresh(hint, BV(64))
	lim := tb.ConstU(addrLimit, 64)
	// non-null, inside the address space, no wrap
	e.assume(tb.Ule(tb.ConstU(preLimit, 64), p))
	e.assume(tb.Ult(p, lim))
	e.assume(tb.Ule(size, tb.ConstU(1<<45, 64)))
	e.assume(tb.Ule(tb.Add(p, size), lim))
	// disjoint from every region known so far
	for _, r := range e.regions {
		e.assume(e.disjoint(p, size, r.ptr, r.size))
	}
	rec := allocRec{p, size}
	e.regions = append(e.regions, rec)
	f.allocs = append(f.allocs, rec)
	if zero {
		st.mem = e.mc.Zero(st.mem, p, size)
	}
	return p
}

func (e *Engine) disjoint(p, n, q, m *Term) *Term {
	tb := e.tb
	return tb.Or(tb.Ule(tb.Add(p, n), q), tb.Ule(tb.Add(q, m), p))
}

func (f *Frame) sliceOp(st *execState, x *ssa.Slice) Val {
	e := f.e
	tb := e.tb
	c64 := func(v uint64) *Term { return tb.ConstU(v, 64) }
	lo := f.idx64(st, x.Low)
	hi := f.idx64(st, x.High)
	mx := f.idx64(st, x.Max)
	if lo == nil {
		lo = c64(0)
	}
	switch u := x.X.Type().Underlying().(type) {
	case *types.Slice:
		s := f.operand(st.env, x.X).(SliceV)
		if hi == nil {
			hi = s.Len
		}
		capv := s.Cap
		if mx != nil {
			f.safety(st, "slice", tb.And(tb.Ule(mx, s.Cap), tb.Ule(hi, mx)), x.Pos(), "3-index slice: hi <= max <= cap")
			capv = mx
		}
		f.safety(st, "slice", tb.And(tb.Ule(lo, hi), tb.Ule(hi, capv)), x.Pos(), "slice bounds: 0 <= lo <= hi <= cap")
		esz := c64(uint64(sizes.Sizeof(u.Elem())))
		return SliceV{tb.Add(s.Ptr, tb.Mul(lo, esz)), tb.Sub(hi, lo), tb.Sub(capv, lo)}
	case *types.Basic: // string
		s := f.operand(st.env, x.X).(StringV)
		if hi == nil {
			hi = s.Len
		}
		f.safety(st, "slice", tb.And(tb.Ule(lo, hi), tb.Ule(hi, s.Len)), x.Pos(), "string slice bounds: 0 <= lo <= hi <= len")
		return StringV{tb.Add(s.Ptr, lo), tb.Sub(hi, lo)}
	case *types.Pointer:
		at := u.Elem().Underlying().(*types.Array)
		p := f.operand(st.env, x.X).(Scalar).T
		f.nilCheck(st, x.X, p, x.Pos())
		n := c64(uint64(at.Len()))
		if hi == nil {
			hi = n
		}
		capv := n
		if mx != nil {
			f.safety(st, "slice", tb.And(tb.Ule(mx, n), tb.Ule(hi, mx)), x.Pos(), "3-index slice: hi <= max <= cap")
			capv = mx
		}
		f.safety(st, "slice", tb.And(tb.Ule(lo, hi), tb.Ule(hi, capv)), x.Pos(), "array slice bounds")
		esz := c64(uint64(sizes.Sizeof(at.Elem())))
		return SliceV{tb.Add(p, tb.Mul(lo, esz)), tb.Sub(hi, lo), tb.Sub(capv, lo)}
	}
	panic("Slice on " + x.X.Type().String())
}

func (f *Frame) binop(st *execState, x *ssa.BinOp) Val {
	e := f.e
	tb := e.tb
	a := f.operand(st.env, x.X)
	b := f.operand(st.env, x.Y)
	xt := x.X.Type()
	switch x.Op {
	case token.EQL, token.NEQ:
		var r *Term
		switch av := a.(type) {
		case StringV:
			r = e.stringEq(st.mem, av, b.(StringV), x.X, x.Y)
		default:
			if isFloat(xt) {
				r = e.floatCmp("feq", a.(Scalar).T, b.(Scalar).T)
			} else {
				r = e.valEq(a, b, st.mem)
			}
		}
		if x.Op == token.NEQ {
			r = tb.Not(r)
		}
		return Scalar{r}
	}
	if _, ok := a.(StringV); ok {
		if x.Op == token.ADD {
			return f.concatStrings(st, a.(StringV), b.(StringV))
		}
		e.noteAbstract(f, "string ordering")
		return Scalar{tb.Fresh("strcmp", BoolSort)}
	}
	at, bt := a.(Scalar).T, b.(Scalar).T
	if isFloat(xt) {
		w := bitsOf(xt)
		switch x.Op {
		case token.ADD, token.SUB, token.MUL, token.QUO:
			return Scalar{e.floatOp("f"+x.Op.String(), w, w, at, bt)}
		case token.LSS:
			return Scalar{e.floatCmp("flt", at, bt)}
		case token.LEQ:
			return Scalar{e.floatCmp("fle", at, bt)}
		case token.GTR:
			return Scalar{e.floatCmp("flt", bt, at)}
		case token.GEQ:
			return Scalar{e.floatCmp("fle", bt, at)}
		}
		panic("float binop " + x.Op.String())
	}
	if at.sort.K == SBool {
		switch x.Op {
		case token.AND, token.LAND:
			return Scalar{tb.And(at, bt)}
		case token.OR, token.LOR:
			return Scalar{tb.Or(at, bt)}
		}
		panic("bool binop " + x.Op.String())
	}
	signed := isSigned(xt)
	w := at.sort.W
	switch x.Op {
	case token.ADD:
		return Scalar{tb.Add(at, bt)}
	case token.SUB:
		return Scalar{tb.Sub(at, bt)}
	case token.MUL:
		return Scalar{tb.Mul(at, bt)}
	case token.QUO, token.REM:
		f.safety(st, "div", tb.Ne(bt, tb.ConstU(0, w)), x.Pos(), "division by zero")
		op := map[bool]map[token.Token]string{true: {token.QUO: "bvsdiv", token.REM: "bvsrem"}, false: {token.QUO: "bvudiv", token.REM: "bvurem"}}[signed][x.Op]
		return Scalar{tb.Bin(op, at, bt)}
	case token.AND:
		return Scalar{tb.Bin("bvand", at, bt)}
	case token.OR:
		return Scalar{tb.Bin("bvor", at, bt)}
	case token.XOR:
		return Scalar{tb.Bin("bvxor", at, bt)}
	case token.AND_NOT:
		return Scalar{tb.Bin("bvand", at, tb.BVNot(bt))}
	case token.SHL, token.SHR:
		if isSigned(x.Y.Type()) {
			f.safety(st, "shift", tb.Sle(tb.ConstU(0, bt.sort.W), bt), x.Pos(), "shift count non-negative")
		}
		return Scalar{e.shift(x.Op == token.SHL, signed, at, bt)}
	case token.LSS, token.LEQ, token.GTR, token.GEQ:
		return Scalar{e.cmp(x.Op, signed, at, bt)}
	}
	panic("unsupported binop " + x.Op.String())
}

func (e *Engine) cmp(op token.Token, signed bool, a, b *Term) *Term {
	tb := e.tb
	switch op {
	case token.LSS:
		if signed {
			return tb.Slt(a, b)
		}
		return tb.Ult(a, b)
	case token.LEQ:
		if signed {
			return tb.Sle(a, b)
		}
		return tb.Ule(a, b)
	case token.GTR:
		if signed {
			return tb.Slt(b, a)
		}
		return tb.Ult(b, a)
	case token.GEQ:
		if signed {
			return tb.Sle(b, a)
		}
		return tb.Ule(b, a)
	}
	panic("cmp")
}

// shift implements Go's shift semantics: counts >= width give 0 (or sign fill).
func (e *Engine) shift(left, signed bool, x, cnt *Term) *Term {
	tb := e.tb
	w := x.sort.W
	op := "bvlshr"
	if left {
		op = "bvshl"
	} else if signed {
		op = "bvashr"
	}
	if cnt.sort.W <= w {
		return tb.Bin(op, x, tb.ZExt(cnt, w)) // SMT semantics coincide with Go's for counts >= w
	}
	big := tb.Ule(tb.ConstU(uint64(w), cnt.sort.W), cnt)
	var fill *Term
	if !left && signed {
		fill = tb.Bin("bvashr", x, tb.ConstU(uint64(w-1), w))
	} else {
		fill = tb.ConstU(0, w)
	}
	return tb.Ite(big, fill, tb.Bin(op, x, tb.Extract(w-1, 0, cnt)))
}

func (f *Frame) convert(st *execState, x *ssa.Convert) Val {
	e := f.e
	tb := e.tb
	v := f.operand(st.env, x.X)
	from, to := x.X.Type().Underlying(), x.Type().Underlying()
	fb, fok := from.(*types.Basic)
	tbk, tok := to.(*types.Basic)
	isPtrLike := func(t types.Type) bool {
		switch u := t.(type) {
		case *types.Pointer:
			return true
		case *types.Basic:
			return u.Kind() == types.UnsafePointer
		}
		return false
	}
	if isPtrLike(from) || isPtrLike(to) {
		return v // pointer <-> unsafe.Pointer <-> uintptr: same 64-bit word
	}
	if fok && tok {
		fi, ti := fb.Info(), tbk.Info()
		switch {
		case fi&types.IsInteger != 0 && ti&types.IsInteger != 0:
			t := v.(Scalar).T
			tw := bitsOf(x.Type())
			if isSigned(x.X.Type()) {
				return Scalar{tb.SExt(t, tw)}
			}
			return Scalar{tb.ZExt(t, tw)}
		case fi&types.IsInteger != 0 && ti&types.IsFloat != 0:
			op := "u2f"
			if isSigned(x.X.Type()) {
				op = "i2f"
			}
			return Scalar{e.floatOp(fmt.Sprintf("%s%d", op, bitsOf(x.X.Type())), bitsOf(x.Type()), bitsOf(x.Type()), v.(Scalar).T)}
		case fi&types.IsFloat != 0 && ti&types.IsInteger != 0:
			op := "f2u"
			if isSigned(x.Type()) {
				op = "f2i"
			}
			return Scalar{e.floatOp(fmt.Sprintf("%s%d", op, bitsOf(x.X.Type())), bitsOf(x.Type()), bitsOf(x.Type()), v.(Scalar).T)}
		case fi&types.IsFloat != 0 && ti&types.IsFloat != 0:
			if bitsOf(x.X.Type()) == bitsOf(x.Type()) {
				return v
			}
			return Scalar{e.floatOp(fmt.Sprintf("f%dto%d", bitsOf(x.X.Type()), bitsOf(x.Type())), bitsOf(x.Type()), bitsOf(x.Type()), v.(Scalar).T)}
		case fi&types.IsInteger != 0 && ti&types.IsString != 0:
			e.noteAbstract(f, "string(rune)")
			var inv []*Term
			r := e.freshVal("runestr", x.Type(), &inv)
			for _, t := range inv {
				e.assume(t)
			}
			return r
		}
	}
	// string <-> []byte
	if _, ok := from.(*types.Slice); ok && tok && tbk.Info()&types.IsString != 0 {
		s := v.(SliceV)
		p := f.allocate(st, "string."+x.Name(), s.Len, false)
		st.mem = e.mc.Copy(st.mem, p, s.Ptr, s.Len)
		return StringV{tb.Ite(tb.Eq(s.Len, tb.ConstU(0, 64)), tb.ConstU(0, 64), p), s.Len}
	}
	if _, ok := to.(*types.Slice); ok && fok && fb.Info()&types.IsString != 0 {
		s := v.(StringV)
		p := f.allocate(st, "bytes."+x.Name(), s.Len, false)
		st.mem = e.mc.Copy(st.mem, p, s.Ptr, s.Len)
		return SliceV{p, s.Len, s.Len}
	}
	panic(fmt.Sprintf("unsupported conversion %s -> %s", x.X.Type(), x.Type()))
}

func (f *Frame) concatStrings(st *execState, a, b StringV) Val {
	e := f.e
	tb := e.tb
	n := tb.Add(a.Len, b.Len)
	p := f.allocate(st, "concat", n, false)
	st.mem = e.mc.Copy(st.mem, p, a.Ptr, a.Len)
	st.mem = e.mc.Copy(st.mem, tb.Add(p, a.Len), b.Ptr, b.Len)
	return StringV{p, n}
}

// stringEq: content equality. With a constant operand it is expanded
// byte-wise; otherwise an uninterpreted predicate over (mem snapshot-free)
// operands is not sound, so a bounded universally quantified formula is used.
func (e *Engine) stringEq(m *Mem, a, b StringV, xa, xb ssa.Value) *Term {
	tb := e.tb
	constLen := func(v ssa.Value) (int, bool) {
		if c, ok := v.(*ssa.Const); ok && c.Value != nil && c.Value.Kind() == constant.String {
			return len(constant.StringVal(c.Value)), true
		}
		return 0, false
	}
	n, ok := constLen(xa)
	if !ok {
		n, ok = constLen(xb)
	}
	if ok {
		cs := []*Term{tb.Eq(a.Len, tb.ConstU(uint64(n), 64)), tb.Eq(b.Len, tb.ConstU(uint64(n), 64))}
		for i := 0; i < n; i++ {
			o := tb.ConstU(uint64(i), 64)
			cs = append(cs, tb.Eq(e.mc.Read8(m, tb.Add(a.Ptr, o)), e.mc.Read8(m, tb.Add(b.Ptr, o))))
		}
		return tb.And(cs...)
	}
	k := tb.Bound("k", BV(64))
	body := tb.Implies(tb.Ult(k, a.Len), tb.Eq(e.mc.Read8(m, tb.Add(a.Ptr, k)), e.mc.Read8(m, tb.Add(b.Ptr, k))))
	return tb.And(tb.Eq(a.Len, b.Len), tb.Forall([]*Term{k}, body))
}

// ---- floats are opaque bit patterns

func (e *Engine) floatConst(v constant.Value, w int) *Term {
	f, _ := constant.Float64Val(v)
	if w == 32 {
		return e.tb.ConstU(uint64(math.Float32bits(float32(f))), 32)
	}
	return e.tb.ConstU(math.Float64bits(f), 64)
}

func (e *Engine) floatOp(name string, inw, outw int, args ...*Term) *Term {
	var ss []Sort
	for _, a := range args {
		ss = append(ss, a.sort)
	}
	u := e.tb.DeclUF(fmt.Sprintf("%s_%d", name, outw), ss, BV(outw))
	return e.tb.App(u, args...)
}

func (e *Engine) floatCmp(name string, a, b *Term) *Term {
	// x == 0.0 holds exactly for +0 and -0 (NaN compares unequal)
	if name == "feq" {
		tb := e.tb
		isZero := func(t *Term) bool { return t.IsConst() && t.val.Sign() == 0 }
		if isZero(b) {
			a, b = b, a
		}
		if isZero(a) {
			w := b.sort.W
			return tb.Eq(tb.Extract(w-2, 0, b), tb.ConstU(0, w-1))
		}
	}
	u := e.tb.DeclUF(fmt.Sprintf("%s_%d", name, a.sort.W), []Sort{a.sort, b.sort}, BoolSort)
	return e.tb.App(u, a, b)
}

// ---- interfaces

func pointerShaped(t types.Type) bool {
	switch u := t.Underlying().(type) {
	case *types.Pointer, *types.Map, *types.Chan, *types.Signature:
		return true
	case *types.Basic:
		return u.Kind() == types.UnsafePointer
	case *types.Struct:
		return u.NumFields() == 1 && pointerShaped(u.Field(0).Type())
	case *types.Array:
		return u.Len() == 1 && pointerShaped(u.Elem())
	}
	return false
}

func (f *Frame) makeIface(st *execState, t types.Type, v Val) Val {
	e := f.e
	if _, ok := t.Underlying().(*types.Interface); ok {
		return v
	}
	tc := e.typeConst(t)
	if pointerShaped(t) {
		if s, ok := v.(Scalar); ok {
			return IfaceV{tc, s.T}
		}
		if fv, ok := v.(FuncV); ok {
			return IfaceV{tc, e.funcHandle(fv)}
		}
	}
	sz := sizes.Sizeof(t)
	p := f.allocate(st, "box."+shortName(types.TypeString(t, nil)), e.tb.ConstU(uint64(sz), 64), false)
	st.mem = e.store(st.mem, p, t, v)
	return IfaceV{tc, p}
}

func (f *Frame) typeAssert(st *execState, x *ssa.TypeAssert) Val {
	e := f.e
	tb := e.tb
	iv := f.operand(st.env, x.X).(IfaceV)
	at := x.AssertedType
	if _, isIface := at.Underlying().(*types.Interface); isIface {
		// interface-to-interface: succeeds iff dynamic type implements; opaque
		u := tb.DeclUF("implements!"+sanitize(shortName(types.TypeString(at, nil))), []Sort{BV(64)}, BoolSort)
		ok := tb.And(tb.Ne(iv.Typ, tb.ConstU(0, 64)), tb.App(u, iv.Typ))
		if x.CommaOk {
			z := tb.ConstU(0, 64)
			return TupleV{[]Val{IfaceV{tb.Ite(ok, iv.Typ, z), tb.Ite(ok, iv.Data, z)}, Scalar{ok}}}
		}
		f.safety(st, "typeassert", ok, x.Pos(), "type assertion to interface succeeds")
		return iv
	}
	ok := tb.Eq(iv.Typ, e.typeConst(at))
	var val Val
	if pointerShaped(at) {
		if _, isSig := at.Underlying().(*types.Signature); isSig {
			val = FuncV{Handle: iv.Data}
		} else {
			val = Scalar{iv.Data}
		}
	} else {
		val = e.load(st.mem, iv.Data, at)
	}
	if x.CommaOk {
		return TupleV{[]Val{e.mergeVal(ok, val, e.zeroVal(at)), Scalar{ok}}}
	}
	f.safety(st, "typeassert", ok, x.Pos(), "type assertion succeeds")
	return val
}

var _ = big.NewInt

// closurePreconditions: "requires" clauses of a closure's contract that speak
// only about captured variables are obligations where the closure is created
// (they are assumed stable until the closure runs: recorded as trusted).
func (f *Frame) closurePreconditions(st *execState, fn *ssa.Function, free []Val, x *ssa.MakeClosure) {
	e := f.e
	con := e.contractFor(fnName(fn))
	if con == nil || len(con.Requires) == 0 {
		return
	}
	sc := &Scope{e: e, vars: map[string]SV{}, mem: st.mem, oldMem: st.mem, gh: st.gh, oldGh: st.gh, pkg: fn.Pkg.Pkg}
	for i, fv := range fn.FreeVars {
		sc.vars[fv.Name()] = e.svOf(free[i], fv.Type())
	}
	for _, r := range con.Requires {
		if r.Label == "" || !strings.HasPrefix(r.Label, "capture") {
			continue
		}
		sc.goal = true
		g := e.evalBool(sc, r.Expr, r.Text)
		f.oblige(st, "requires", "closure."+fn.Name()+"."+r.Label, st.reach, g, x.Pos(), "precondition of closure "+fn.Name()+" at creation: "+r.Text)
		e.trusted["closure preconditions labelled capture-* are established at creation and assumed to still hold when the closure is called"] = true
	}
}
