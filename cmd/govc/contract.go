package main

// Contract files: comment-only Go files (build tag verif) in the package
// directories of /repo. Every line of interest starts with "//@".

import (
	"fmt"
	"go/ast"
	"go/parser"
	"os"
	"path/filepath"
	"regexp"
	"strconv"
	"strings"
)

type Clause struct {
	Props []string // restricts the clause to these properties ("@C13,C04" after the label)
	Label string
	Text  string
	Expr  ast.Expr
	Line  int
}

// GhostVar: a specification-only loop variable ("loop N ghost G u128 := init update expr").
type GhostVar struct {
	Name   string
	Type   string
	Init   Clause
	Update Clause
}

// LoopDef: "loop N define b := expr" — the loop-carried slice b is, at the
// loop head, *defined* as expr (over ghosts and loop-invariant values); it is
// also checked like the invariant b == expr.
type LoopDef struct {
	Name string
	Val  Clause
}

type LoopSpec struct {
	Defs          []LoopDef
	Ghosts        []GhostVar
	Inv           []Clause
	Unroll        int
	Bounded       bool
	Decreases     ast.Expr
	DecreasesText string
	Modifies      []Clause
	Keeps         []Clause // regions above the address-space split that the loop does not write (restored after the havoc of fresh memory; writes to them are frame violations)
}

type ParamDecl struct {
	Name string
	Type string
}

type Contract struct {
	Target    string // short function name as produced by fnName
	File      string
	Line      int
	Requires  []Clause
	Ensures   []Clause
	Modifies  []Clause
	HasMod    bool
	Loops     map[int]*LoopSpec
	Inline    bool
	Props     []string
	Assumed   bool // contract on a dependency: never proved, listed as trusted
	Params    []ParamDecl
	Results   []ParamDecl
	Panics    []Clause // declared panic conditions ("panics when ...")
	Trusted   string   // reason the body is not verified (e.g. reflection); contract is then an assumption
	NoSafety  bool
	Abstracted bool
	Calls     []string // function-typed parameters the (assumed) function may call: its effect includes theirs
	NoEager   bool     // do not instantiate quantified hypotheses at the constants 0..10 (goal-directed instances only)
	TailSize  int      // joins in loop-free function tails of up to this many blocks are not merged (default 10)
	InlineCalls []string // callees (short names) expanded in place although they have a contract
	Unpack    []string // pointer parameters whose pointee is held in registers between calls
	Pure      bool
	ReplayTpl string
	Bounds    []Clause // extra assumptions used only for bounded counterexample search
	SpecName  string   // name under which an assumed pure function can be applied inside specs
	Split     *SplitSpec
	Ats       []*AtClause
	Afters    []AfterClause
	Assumes   []Clause
	Small     []SmallHint
	Returns   []ReturnsClause
	Witnesses []Witness
	Sets      []SetsClause
	retEnsures []int // indices of ensures clauses generated from returns clauses
}

// ReturnsClause: "returns rK := E when C" — proved as the postcondition
// C ==> rK == E; at call sites the result is *defined* as ite(C, E, fresh),
// so equal arguments give syntactically equal results once the caller's path
// condition has decided C.
type ReturnsClause struct {
	Result string
	Val    Clause
	When   *Clause
}

// SetsClause: "sets OUTLEN := E when C" — the ghost scalar after the call is
// defined as ite(C, E, fresh); proved as the postcondition C ==> ghost == E.
type SetsClause struct {
	Ghost string
	Val   Clause
	When  *Clause
}

// Witness: "witness n int := expr" — an existentially quantified value of the
// contract. In the function's own proof it is defined by expr (over parameters
// and results); at call sites it is a fresh value constrained by the ensures
// clauses, and definitional "returns" clauses may mention it.
type Witness struct {
	Name string
	Type string
	Def  Clause
}

// SmallHint: result (by name r0, r1, ...) takes few values; used to read
// memory by cases at call sites. A hint only: never affects soundness.
type SmallHint struct {
	Result string
	Lo, Hi int64
}

// AfterClause: "after call <callee>[#n] bind NAME rK" names a result of that
// call so that later clauses can speak about it.
type AfterClause struct {
	Callee string
	Nth    int
	Name   string
	Result int
	Init   bool // "init zero": the name holds the zero value until the call is made (a ghost variable; it is havoc'd at the head of a cut loop containing the call)
}

// AtClause: an intermediate assertion or rewrite attached to a program point
// ("at call <callee>[#n]": just before the n-th call, in block order, of callee).
type AtClause struct {
	Callee  string
	Nth     int
	Loop    int    // "callee@Lk": every call to callee inside loop k (0: select by ordinal Nth)
	Assume  bool   // "assume": the clause is taken as a hypothesis at the call (listed as an assumption), not proved
	Rewrite string // variable name for "rewrite name := expr"
	After   bool   // "after call ... assume|assert": evaluated in the state after the call returned
	C       Clause
}

// SplitSpec: case split of the postcondition queries on an integer expression.
type SplitSpec struct {
	Text   string
	Expr   ast.Expr
	Lo, Hi int
}

type UFDecl struct {
	Name string
	Args []string
	Ret  string
}

type SpecFunc struct {
	Name   string
	Params []ParamDecl
	Ret    string
	Text   string
	Body   ast.Expr
	File   string
	Line   int
}

type Lemma struct {
	Label  string
	Params []ParamDecl
	Text   string
	Expr   ast.Expr
	Props  []string
	File   string
	Line   int
}

type ContractSet struct {
	Pkg       string
	Dir       string
	Funcs     map[string]*Contract
	Order     []string
	Specs     map[string]*SpecFunc
	UFs       map[string]*UFDecl
	Lemmas    []*Lemma
	Globals   []string
	NotUnder  map[string][]string // property -> named remainder
	Assumes   []string
	SweepAll  []string // files whose remaining functions get the zero-annotation sweep
	SweepProp string
}

var keywords = map[string]bool{"spec": true, "global": true, "func": true, "assume": true, "props": true, "requires": true,
	"ensures": true, "modifies": true, "inline": true, "loop": true, "lemma": true, "panics": true, "trusted": true,
	"nosafety": true, "abstracted": true, "unpack": true, "noeager": true, "calls": true, "inlinecalls": true, "tail": true, "pure": true, "uf": true, "specname": true, "split": true, "at": true, "after": true, "assumes": true, "small": true, "returns": true, "sets": true, "witness": true, "replay": true, "remainder": true, "sweep": true, "bound": true}

var labelRe = regexp.MustCompile(`^\[([A-Za-z0-9_.\-]+)\]\s*`)

func parseContractFile(path string, cs *ContractSet) error {
	data, err := os.ReadFile(path)
	if err != nil {
		return err
	}
	type logical struct {
		text string
		line int
	}
	var lines []logical
	for i, raw := range strings.Split(string(data), "\n") {
		s := strings.TrimSpace(raw)
		if !strings.HasPrefix(s, "//@") {
			continue
		}
		s = strings.TrimSpace(s[3:])
		if s == "" {
			continue
		}
		if idx := strings.Index(s, " //"); idx >= 0 && !strings.Contains(s, "'") { // trailing comment
			s = strings.TrimSpace(s[:idx])
		}
		first := s
		if j := strings.IndexAny(s, " \t("); j >= 0 {
			first = s[:j]
		}
		if keywords[first] || len(lines) == 0 {
			lines = append(lines, logical{s, i + 1})
		} else {
			lines[len(lines)-1].text += " " + s
		}
	}
	var cur *Contract
	var curProps []string
	mkClause := func(s string, line int) (Clause, error) {
		c := Clause{Line: line}
		if m := labelRe.FindStringSubmatch(s); m != nil {
			c.Label = m[1]
			s = s[len(m[0]):]
		}
		if strings.HasPrefix(s, "@") {
			j := strings.IndexAny(s, " \t")
			if j > 0 {
				c.Props = strings.Split(s[1:j], ",")
				s = strings.TrimSpace(s[j:])
			}
		}
		c.Text = s
		ex, err := parseSpecExpr(s)
		if err != nil {
			return c, fmt.Errorf("%s:%d: %v in %q", path, line, err, s)
		}
		c.Expr = ex
		return c, nil
	}
	for _, l := range lines {
		kw, rest := l.text, ""
		if j := strings.IndexAny(l.text, " \t"); j >= 0 {
			kw, rest = l.text[:j], strings.TrimSpace(l.text[j+1:])
		}
		switch kw {
		case "spec":
			sf, err := parseSpecDecl(rest)
			if err != nil {
				return fmt.Errorf("%s:%d: %v", path, l.line, err)
			}
			sf.File, sf.Line = path, l.line
			if _, dup := cs.Specs[sf.Name]; dup {
				return fmt.Errorf("%s:%d: duplicate spec %s", path, l.line, sf.Name)
			}
			cs.Specs[sf.Name] = sf
		case "global":
			cs.Globals = append(cs.Globals, strings.Fields(rest)...)
		case "uf":
			// uf name(t1, t2) ret
			i := strings.Index(rest, "(")
			j := matchParen(rest, i)
			if i < 0 || j < 0 {
				return fmt.Errorf("%s:%d: bad uf declaration", path, l.line)
			}
			u := &UFDecl{Name: strings.TrimSpace(rest[:i]), Ret: strings.TrimSpace(rest[j+1:])}
			for _, a := range splitTop(rest[i+1:j], ",") {
				if a = strings.TrimSpace(a); a != "" {
					u.Args = append(u.Args, a)
				}
			}
			cs.UFs[u.Name] = u
		case "lemma":
			lm := &Lemma{File: path, Line: l.line, Props: curProps}
			if m := labelRe.FindStringSubmatch(rest); m != nil {
				lm.Label = m[1]
				rest = rest[len(m[0]):]
			}
			if strings.HasPrefix(rest, "@") {
				if j := strings.IndexAny(rest, " \t"); j > 0 {
					lm.Props = strings.Split(rest[1:j], ",")
					rest = strings.TrimSpace(rest[j:])
				}
			}
			if !strings.HasPrefix(rest, "(") {
				return fmt.Errorf("%s:%d: lemma needs a parameter list", path, l.line)
			}
			end := matchParen(rest, 0)
			ps, err := parseParams(rest[1:end])
			if err != nil {
				return fmt.Errorf("%s:%d: %v", path, l.line, err)
			}
			lm.Params = ps
			lm.Text = strings.TrimSpace(rest[end+1:])
			ex, err := parseSpecExpr(lm.Text)
			if err != nil {
				return fmt.Errorf("%s:%d: %v", path, l.line, err)
			}
			lm.Expr = ex
			cs.Lemmas = append(cs.Lemmas, lm)
		case "func", "assume":
			assumed := kw == "assume"
			if assumed {
				if !strings.HasPrefix(rest, "func ") {
					return fmt.Errorf("%s:%d: expected 'assume func'", path, l.line)
				}
				rest = strings.TrimSpace(rest[5:])
			}
			cur = &Contract{File: path, Line: l.line, Loops: map[int]*LoopSpec{}, Assumed: assumed, Props: curProps}
			name, ps, rs, err := parseFuncHeader(rest, cs.Pkg)
			if err != nil {
				return fmt.Errorf("%s:%d: %v", path, l.line, err)
			}
			cur.Params, cur.Results = ps, rs
			cur.Target = name
			if _, dup := cs.Funcs[name]; dup {
				return fmt.Errorf("%s:%d: duplicate contract for %s", path, l.line, name)
			}
			cs.Funcs[name] = cur
			cs.Order = append(cs.Order, name)
		case "props":
			ps := strings.Fields(rest)
			if cur == nil {
				curProps = ps
			} else {
				cur.Props = ps
			}
		case "remainder":
			// remainder C01: text
			i := strings.Index(rest, ":")
			if i < 0 {
				return fmt.Errorf("%s:%d: remainder needs 'Cxx: text'", path, l.line)
			}
			p := strings.TrimSpace(rest[:i])
			cs.NotUnder[p] = append(cs.NotUnder[p], strings.TrimSpace(rest[i+1:]))
		case "sweep":
			cs.SweepAll = append(cs.SweepAll, strings.Fields(rest)...)
		default:
			if cur == nil {
				return fmt.Errorf("%s:%d: clause %q outside a func block", path, l.line, kw)
			}
			switch kw {
			case "assumes":
				// an assumption about a dependency, stated on the function under
				// proof (listed as trusted; callers do not have to establish it)
				cl, err := mkClause(rest, l.line)
				if err != nil {
					return err
				}
				cur.Assumes = append(cur.Assumes, cl)
			case "requires", "ensures", "panics", "bound":
				if kw == "panics" {
					rest = strings.TrimSpace(strings.TrimPrefix(rest, "when"))
				}
				c, err := mkClause(rest, l.line)
				if err != nil {
					return err
				}
				switch kw {
				case "requires":
					cur.Requires = append(cur.Requires, c)
				case "ensures":
					cur.Ensures = append(cur.Ensures, c)
				case "panics":
					cur.Panics = append(cur.Panics, c)
				case "bound":
					cur.Bounds = append(cur.Bounds, c)
				}
			case "modifies":
				cur.HasMod = true
				if rest != "nothing" {
					for _, part := range splitTop(rest, ",") {
						c, err := mkClause(strings.TrimSpace(part), l.line)
						if err != nil {
							return err
						}
						cur.Modifies = append(cur.Modifies, c)
					}
				}
			case "returns":
				j := strings.Index(rest, ":=")
				if j < 0 {
					return fmt.Errorf("%s:%d: returns rK := expr [when cond]", path, l.line)
				}
				rc := ReturnsClause{Result: strings.TrimSpace(rest[:j])}
				body := strings.TrimSpace(rest[j+2:])
				if k := strings.LastIndex(body, " when "); k >= 0 {
					wc, err := mkClause(strings.TrimSpace(body[k+6:]), l.line)
					if err != nil {
						return err
					}
					rc.When = &wc
					body = strings.TrimSpace(body[:k])
				}
				vc, err := mkClause(body, l.line)
				if err != nil {
					return err
				}
				rc.Val = vc
				cur.Returns = append(cur.Returns, rc)
				// the proof obligation for the function itself
				txt := rc.Result + " == (" + body + ")"
				if rc.When != nil {
					txt = "(" + rc.When.Text + ") ==> " + txt
				}
				ec, err := mkClause(txt, l.line)
				if err != nil {
					return err
				}
				ec.Label = "returns." + rc.Result
				cur.Ensures = append(cur.Ensures, ec)
				cur.retEnsures = append(cur.retEnsures, len(cur.Ensures)-1)
			case "sets":
				j := strings.Index(rest, ":=")
				if j < 0 {
					return fmt.Errorf("%s:%d: sets GHOST := expr [when cond]", path, l.line)
				}
				gname := map[string]string{"OUTLEN": "outlen", "INPOS": "inpos", "INLEN": "inlen", "TICKS": "ticks"}[strings.TrimSpace(rest[:j])]
				if gname == "" {
					return fmt.Errorf("%s:%d: sets: unknown ghost variable", path, l.line)
				}
				sc := SetsClause{Ghost: gname}
				body := strings.TrimSpace(rest[j+2:])
				if k := strings.LastIndex(body, " when "); k >= 0 {
					wc, err := mkClause(strings.TrimSpace(body[k+6:]), l.line)
					if err != nil {
						return err
					}
					sc.When = &wc
					body = strings.TrimSpace(body[:k])
				}
				vc, err := mkClause(body, l.line)
				if err != nil {
					return err
				}
				sc.Val = vc
				cur.Sets = append(cur.Sets, sc)
				txt := gname + "() == (" + body + ")"
				if sc.When != nil {
					txt = "(" + sc.When.Text + ") ==> " + txt
				}
				ec, err := mkClause(txt, l.line)
				if err != nil {
					return err
				}
				ec.Label = "sets." + gname
				cur.Ensures = append(cur.Ensures, ec)
				cur.retEnsures = append(cur.retEnsures, len(cur.Ensures)-1)
			case "witness":
				j := strings.Index(rest, ":=")
				hd := strings.Fields(strings.TrimSpace(rest[:max0(j)]))
				if j < 0 || len(hd) != 2 {
					return fmt.Errorf("%s:%d: witness NAME TYPE := expr", path, l.line)
				}
				dc, err := mkClause(strings.TrimSpace(rest[j+2:]), l.line)
				if err != nil {
					return err
				}
				cur.Witnesses = append(cur.Witnesses, Witness{Name: hd[0], Type: hd[1], Def: dc})
			case "small":
				fs := strings.Fields(rest)
				if len(fs) != 3 {
					return fmt.Errorf("%s:%d: small <result> <lo> <hi>", path, l.line)
				}
				lo, err1 := strconv.ParseInt(fs[1], 0, 64)
				hi, err2 := strconv.ParseInt(fs[2], 0, 64)
				if err1 != nil || err2 != nil || hi < lo || hi-lo > 32 {
					return fmt.Errorf("%s:%d: bad small range", path, l.line)
				}
				cur.Small = append(cur.Small, SmallHint{fs[0], lo, hi})
			case "specname":
				cur.SpecName = rest
			case "split":
				// split <expr> <lo> <hi>
				fs := strings.Fields(rest)
				if len(fs) < 3 {
					return fmt.Errorf("%s:%d: split <expr> <lo> <hi>", path, l.line)
				}
				lo, err1 := strconv.Atoi(fs[len(fs)-2])
				hi, err2 := strconv.Atoi(fs[len(fs)-1])
				txt := strings.Join(fs[:len(fs)-2], " ")
				ex, err3 := parseSpecExpr(txt)
				if err1 != nil || err2 != nil || err3 != nil {
					return fmt.Errorf("%s:%d: bad split clause", path, l.line)
				}
				cur.Split = &SplitSpec{Text: txt, Expr: ex, Lo: lo, Hi: hi}
			case "inline":
				cur.Inline = true
			case "pure":
				cur.Pure = true
				cur.HasMod = true
			case "tail":
				n, err := strconv.Atoi(strings.TrimSpace(rest))
				if err != nil || n < 0 || n > 200 {
					return fmt.Errorf("%s:%d: tail <blocks>", path, l.line)
				}
				cur.TailSize = n
			case "calls":
				cur.Calls = append(cur.Calls, strings.Fields(rest)...)
			case "noeager":
				cur.NoEager = true
			case "unpack":
				cur.Unpack = append(cur.Unpack, strings.Fields(rest)...)
			case "inlinecalls":
				for _, n := range strings.Split(rest, ",") {
					if n = strings.TrimSpace(n); n != "" {
						if qn, _, _, err := parseFuncHeader(n, cs.Pkg); err == nil {
							n = qn
						}
						cur.InlineCalls = append(cur.InlineCalls, n)
					}
				}
			case "nosafety":
				cur.NoSafety = true
			case "abstracted":
				// the function calls code that is only havoc'd (reflection, user
				// callbacks): safety refutations on paths that cross such a call
				// are recorded as unproved, not as violations
				cur.Abstracted = true
			case "trusted":
				cur.Trusted = rest
				if cur.Trusted == "" {
					cur.Trusted = "unspecified"
				}
			case "replay":
				cur.ReplayTpl = rest
			case "after":
				// after call <callee>[#n] bind NAME rK
				// after call <callee>[#n] assume|assert [label] expr
				fs := strings.Fields(rest)
				if len(fs) >= 4 && fs[0] == "call" && (fs[2] == "assume" || fs[2] == "assert") {
					ac, err := parseAtClause(rest, path, l.line, len(cur.Ats), mkClause)
					if err != nil {
						return err
					}
					ac.After = true
					cur.Ats = append(cur.Ats, ac)
					break
				}
				initZero := false
				if len(fs) == 7 && fs[5] == "init" && fs[6] == "zero" {
					initZero = true
					fs = fs[:5]
				}
				if len(fs) != 5 || fs[0] != "call" || fs[2] != "bind" || !strings.HasPrefix(fs[4], "r") {
					return fmt.Errorf("%s:%d: after call <callee>[#n] bind NAME rK", path, l.line)
				}
				ac := AfterClause{Callee: fs[1], Nth: 1, Name: fs[3]}
				if i := strings.Index(fs[1], "#"); i >= 0 {
					ac.Callee = fs[1][:i]
					ac.Nth, _ = strconv.Atoi(fs[1][i+1:])
				}
				ac.Result, _ = strconv.Atoi(fs[4][1:])
				ac.Init = initZero
				cur.Afters = append(cur.Afters, ac)
			case "at":
				ac, err := parseAtClause(rest, path, l.line, len(cur.Ats), mkClause)
				if err != nil {
					return err
				}
				cur.Ats = append(cur.Ats, ac)
			case "loop":
				fs := strings.SplitN(rest, " ", 3)
				if len(fs) < 2 {
					return fmt.Errorf("%s:%d: bad loop clause", path, l.line)
				}
				ord, err := strconv.Atoi(fs[0])
				if err != nil {
					return fmt.Errorf("%s:%d: bad loop ordinal", path, l.line)
				}
				ls := cur.Loops[ord]
				if ls == nil {
					ls = &LoopSpec{}
					cur.Loops[ord] = ls
				}
				arg := ""
				if len(fs) == 3 {
					arg = strings.TrimSpace(fs[2])
				}
				switch fs[1] {
				case "invariant":
					c, err := mkClause(arg, l.line)
					if err != nil {
						return err
					}
					if c.Label == "" {
						c.Label = fmt.Sprintf("inv%d", len(ls.Inv)+1)
					}
					ls.Inv = append(ls.Inv, c)
				case "define":
					j := strings.Index(arg, ":=")
					if j < 0 {
						return fmt.Errorf("%s:%d: loop N define NAME := expr", path, l.line)
					}
					nm := strings.TrimSpace(arg[:j])
					vc, err := mkClause(strings.TrimSpace(arg[j+2:]), l.line)
					if err != nil {
						return err
					}
					ls.Defs = append(ls.Defs, LoopDef{Name: nm, Val: vc})
					ic, err := mkClause(nm+" == ("+vc.Text+")", l.line)
					if err != nil {
						return err
					}
					ic.Label = "def." + nm
					ls.Inv = append(ls.Inv, ic)
				case "ghost":
					// ghost NAME TYPE := init update expr
					gf := strings.SplitN(arg, " ", 3)
					if len(gf) < 3 || !strings.HasPrefix(strings.TrimSpace(gf[2]), ":=") {
						return fmt.Errorf("%s:%d: loop N ghost NAME TYPE := init update expr", path, l.line)
					}
					body := strings.TrimSpace(strings.TrimPrefix(strings.TrimSpace(gf[2]), ":="))
					k := strings.Index(body, " update ")
					if k < 0 {
						return fmt.Errorf("%s:%d: ghost variable needs 'update expr'", path, l.line)
					}
					ic, err := mkClause(strings.TrimSpace(body[:k]), l.line)
					if err != nil {
						return err
					}
					uc, err := mkClause(strings.TrimSpace(body[k+8:]), l.line)
					if err != nil {
						return err
					}
					ls.Ghosts = append(ls.Ghosts, GhostVar{Name: gf[0], Type: gf[1], Init: ic, Update: uc})
				case "unroll", "bounded":
					k, err := strconv.Atoi(arg)
					if err != nil || k <= 0 {
						return fmt.Errorf("%s:%d: bad unroll count", path, l.line)
					}
					ls.Unroll = k
					ls.Bounded = fs[1] == "bounded"
				case "decreases":
					ex, err := parseSpecExpr(arg)
					if err != nil {
						return fmt.Errorf("%s:%d: %v", path, l.line, err)
					}
					ls.Decreases, ls.DecreasesText = ex, arg
				case "modifies":
					if ls.Modifies == nil {
						ls.Modifies = []Clause{}
					}
					if arg != "nothing" {
						for _, part := range splitTop(arg, ",") {
							c, err := mkClause(strings.TrimSpace(part), l.line)
							if err != nil {
								return err
							}
							ls.Modifies = append(ls.Modifies, c)
						}
					}
				case "keeps":
					for _, part := range splitTop(arg, ",") {
						c, err := mkClause(strings.TrimSpace(part), l.line)
						if err != nil {
							return err
						}
						ls.Keeps = append(ls.Keeps, c)
					}
				default:
					return fmt.Errorf("%s:%d: unknown loop clause %q", path, l.line, fs[1])
				}
			default:
				return fmt.Errorf("%s:%d: unknown keyword %q", path, l.line, kw)
			}
		}
	}
	return nil
}

// parseFuncHeader parses "name", "name(params) results", "(T).m", "(*T).m(params) (results)".
// Unqualified names are qualified with pkg.
func parseFuncHeader(rest, pkg string) (string, []ParamDecl, []ParamDecl, error) {
	rest = strings.TrimSpace(rest)
	recv := ""
	if strings.HasPrefix(rest, "(") {
		end := matchParen(rest, 0)
		if end < 0 {
			return "", nil, nil, fmt.Errorf("unbalanced receiver")
		}
		recv = rest[:end+1]
		rest = rest[end+1:]
	}
	name, sig := rest, ""
	if i := strings.Index(rest, "("); i >= 0 {
		name, sig = strings.TrimSpace(rest[:i]), rest[i:]
	}
	var ps, rs []ParamDecl
	if sig != "" {
		e1 := matchParen(sig, 0)
		if e1 < 0 {
			return "", nil, nil, fmt.Errorf("unbalanced parameter list")
		}
		var err error
		if ps, err = parseParams(sig[1:e1]); err != nil {
			return "", nil, nil, err
		}
		r := strings.TrimSpace(sig[e1+1:])
		if strings.HasPrefix(r, "(") {
			e2 := matchParen(r, 0)
			if rs, err = parseParams(r[1:e2]); err != nil {
				return "", nil, nil, err
			}
		} else if r != "" {
			rs = []ParamDecl{{Name: "r0", Type: r}}
		}
	}
	if recv != "" {
		inner := recv[1 : len(recv)-1]
		star := strings.HasPrefix(inner, "*")
		inner = strings.TrimPrefix(inner, "*")
		if !strings.Contains(inner, ".") {
			inner = pkg + "." + inner
		}
		if star {
			inner = "*" + inner
		}
		return "(" + inner + ")" + name, ps, rs, nil
	}
	if !strings.Contains(name, ".") {
		name = pkg + "." + name
	}
	return name, ps, rs, nil
}

func max0(i int) int {
	if i < 0 {
		return 0
	}
	return i
}

func loadContracts(dir, pkgName string) (*ContractSet, error) {
	cs := &ContractSet{Pkg: pkgName, Dir: dir, Funcs: map[string]*Contract{}, Specs: map[string]*SpecFunc{}, UFs: map[string]*UFDecl{}, NotUnder: map[string][]string{}}
	files, _ := filepath.Glob(filepath.Join(dir, "zz_contracts*_verif.go"))
	for _, f := range files {
		if err := parseContractFile(f, cs); err != nil {
			return nil, err
		}
	}
	return cs, nil
}

func parseParams(s string) ([]ParamDecl, error) {
	var out []ParamDecl
	s = strings.TrimSpace(s)
	if s == "" {
		return nil, nil
	}
	for _, p := range splitTop(s, ",") {
		fs := strings.Fields(strings.TrimSpace(p))
		switch len(fs) {
		case 1:
			out = append(out, ParamDecl{Name: fs[0]})
		case 2:
			out = append(out, ParamDecl{Name: fs[0], Type: fs[1]})
		default:
			return nil, fmt.Errorf("bad parameter %q", p)
		}
	}
	// Go-style "a, b T": propagate types backwards
	for i := len(out) - 2; i >= 0; i-- {
		if out[i].Type == "" {
			out[i].Type = out[i+1].Type
		}
	}
	for _, p := range out {
		if p.Type == "" {
			return nil, fmt.Errorf("parameter %s has no type", p.Name)
		}
	}
	return out, nil
}

func parseSpecDecl(s string) (*SpecFunc, error) {
	i := strings.Index(s, "(")
	if i < 0 {
		return nil, fmt.Errorf("spec: missing parameter list")
	}
	sf := &SpecFunc{Name: strings.TrimSpace(s[:i])}
	end := matchParen(s, i)
	if end < 0 {
		return nil, fmt.Errorf("spec: unbalanced parentheses")
	}
	ps, err := parseParams(s[i+1 : end])
	if err != nil {
		return nil, err
	}
	sf.Params = ps
	rest := strings.TrimSpace(s[end+1:])
	j := strings.Index(rest, ":=")
	if j < 0 {
		return nil, fmt.Errorf("spec %s: missing :=", sf.Name)
	}
	sf.Ret = strings.TrimSpace(rest[:j])
	sf.Text = strings.TrimSpace(rest[j+2:])
	ex, err := parseSpecExpr(sf.Text)
	if err != nil {
		return nil, fmt.Errorf("spec %s: %v", sf.Name, err)
	}
	sf.Body = ex
	return sf, nil
}

func matchParen(s string, i int) int {
	depth := 0
	for j := i; j < len(s); j++ {
		switch s[j] {
		case '(', '[':
			depth++
		case ')', ']':
			depth--
			if depth == 0 {
				return j
			}
		case '\'':
			// character literal
			if j+2 < len(s) && s[j+1] == '\\' {
				k := strings.IndexByte(s[j+2:], '\'')
				if k >= 0 {
					j = j + 2 + k
				}
			} else if j+2 < len(s) && s[j+2] == '\'' {
				j += 2
			}
		case '"':
			k := strings.IndexByte(s[j+1:], '"')
			if k >= 0 {
				j = j + 1 + k
			}
		}
	}
	return -1
}

// splitTop splits s at occurrences of sep that are outside brackets/quotes.
func splitTop(s, sep string) []string {
	var out []string
	depth := 0
	start := 0
	for j := 0; j < len(s); j++ {
		switch s[j] {
		case '(', '[':
			depth++
		case ')', ']':
			depth--
		case '\'':
			if j+2 < len(s) && s[j+1] == '\\' {
				k := strings.IndexByte(s[j+2:], '\'')
				if k >= 0 {
					j = j + 2 + k
				}
			} else if j+2 < len(s) && s[j+2] == '\'' {
				j += 2
			}
			continue
		case '"':
			k := strings.IndexByte(s[j+1:], '"')
			if k >= 0 {
				j = j + 1 + k
			}
			continue
		}
		if depth == 0 && strings.HasPrefix(s[j:], sep) {
			// "==>" must not match inside "<==>"
			if sep == "==>" && j > 0 && s[j-1] == '<' {
				continue
			}
			out = append(out, s[start:j])
			start = j + len(sep)
			j += len(sep) - 1
		}
	}
	out = append(out, s[start:])
	return out
}

// rewriteArrows turns "a ==> b" into implies(a, b) and "a <==> b" into
// iff(a, b) at every nesting level so that go/parser can parse the rest.
func rewriteArrows(s string) string {
	if ps := splitTop(s, "<==>"); len(ps) > 1 {
		if len(ps) != 2 {
			return "iff(" + rewriteArrows(ps[0]) + ", " + rewriteArrows(strings.Join(ps[1:], "<==>")) + ")"
		}
		return "iff(" + rewriteArrows(ps[0]) + ", " + rewriteArrows(ps[1]) + ")"
	}
	if ps := splitTop(s, "==>"); len(ps) > 1 {
		return "implies(" + rewriteArrows(ps[0]) + ", " + rewriteArrows(strings.Join(ps[1:], "==>")) + ")"
	}
	var sb strings.Builder
	for j := 0; j < len(s); j++ {
		c := s[j]
		switch c {
		case '(', '[':
			end := matchParen(s, j)
			if end < 0 {
				sb.WriteString(s[j:])
				return sb.String()
			}
			sb.WriteByte(c)
			sepc := ","
			if c == '[' {
				sepc = ":"
			}
			parts := splitTop(s[j+1:end], sepc)
			for i, p := range parts {
				if i > 0 {
					sb.WriteString(sepc)
				}
				sb.WriteString(rewriteArrows(p))
			}
			sb.WriteByte(s[end])
			j = end
		case '\'':
			k := j + 1
			if k < len(s) && s[k] == '\\' {
				k++
			}
			k = k + 1 + strings.IndexByte(s[k+1:], '\'') + 1
			if k <= j || k > len(s) {
				k = len(s)
			}
			sb.WriteString(s[j:k])
			j = k - 1
		default:
			sb.WriteByte(c)
		}
	}
	return sb.String()
}

func parseSpecExpr(s string) (ast.Expr, error) {
	r := rewriteArrows(s)
	ex, err := parser.ParseExpr(r)
	if err != nil {
		return nil, fmt.Errorf("cannot parse %q: %v", r, err)
	}
	return ex, nil
}

// parseAtClause parses the text after "at" / "after" of a call-site clause.
func parseAtClause(rest, path string, line, nAts int, mkClause func(string, int) (Clause, error)) (*AtClause, error) {
				// at call <callee>[#n] assert [label] expr | rewrite name := expr
				fs := strings.SplitN(rest, " ", 4)
				if len(fs) < 4 || fs[0] != "call" {
					return nil, fmt.Errorf("%s:%d: at call <callee> assert|rewrite ...", path, line)
				}
				ac := &AtClause{Callee: fs[1], Nth: 1}
				if i := strings.Index(fs[1], "#"); i >= 0 {
					ac.Callee = fs[1][:i]
					ac.Nth, _ = strconv.Atoi(fs[1][i+1:])
				} else if i := strings.Index(fs[1], "@L"); i >= 0 {
					ac.Callee = fs[1][:i]
					ac.Loop, _ = strconv.Atoi(fs[1][i+2:])
					if ac.Loop <= 0 {
						return nil, fmt.Errorf("%s:%d: at call callee@L<loop ordinal>", path, line)
					}
				}
				body := strings.TrimSpace(fs[3])
				switch fs[2] {
				case "assert":
				case "assume":
					ac.Assume = true
				case "rewrite":
					j := strings.Index(body, ":=")
					if j < 0 {
						return nil, fmt.Errorf("%s:%d: rewrite name := expr", path, line)
					}
					ac.Rewrite = strings.TrimSpace(body[:j])
					body = strings.TrimSpace(body[j+2:])
				default:
					return nil, fmt.Errorf("%s:%d: at call ... assert|assume|rewrite", path, line)
				}
				cl, err := mkClause(body, line)
				if err != nil {
					return nil, err
				}
				if cl.Label == "" {
					cl.Label = fmt.Sprintf("at%d", nAts+1)
					if ac.Rewrite != "" {
						cl.Label = "rw." + ac.Rewrite
					}
				}
				ac.C = cl
				return ac, nil
}
