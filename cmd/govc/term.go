package main

// Hash-consed SMT-LIB terms over Bool, fixed-width bit-vectors and
// (BV64 -> BV8) arrays, with light simplification. Simplification matters
// for two reasons: (1) address terms are kept in "base + constant" form so
// that the memory model can resolve most read-over-write questions
// syntactically, and (2) VC size.

import (
	"fmt"
	"math/big"
	"sort"
	"strings"
)

type SortKind int

const (
	SBool SortKind = iota
	SBV
	SArr // (Array (_ BitVec 64) (_ BitVec 8))
)

type Sort struct {
	K SortKind
	W int
}

func (s Sort) String() string {
	switch s.K {
	case SBool:
		return "Bool"
	case SBV:
		return fmt.Sprintf("(_ BitVec %d)", s.W)
	default:
		return "(Array (_ BitVec 64) (_ BitVec 8))"
	}
}

var BoolSort = Sort{K: SBool}

func BV(w int) Sort { return Sort{K: SBV, W: w} }

type Term struct {
	id    int
	op    string // "const", "var", "app:<uf>", or SMT operator
	args  []*Term
	sort  Sort
	val   *big.Int // const
	name  string   // var / uf / bound
	p1    int      // extract hi / extend amount
	p2    int      // extract lo
	bound bool     // is (or contains) a bound variable
}

type UF struct {
	Name string
	Args []Sort
	Ret  Sort
}

// TB is a term bank (one per verification job).
type TB struct {
	tab   map[string]*Term
	next  int
	vars  map[string]*Term
	ufs   map[string]*UF
	fresh map[string]int
	all   []*Term
}

func NewTB() *TB {
	return &TB{tab: map[string]*Term{}, vars: map[string]*Term{}, ufs: map[string]*UF{}, fresh: map[string]int{}}
}

func (b *TB) intern(t *Term) *Term {
	var sb strings.Builder
	sb.WriteString(t.op)
	sb.WriteByte('|')
	sb.WriteString(t.name)
	if t.val != nil {
		sb.WriteString(t.val.Text(16))
	}
	fmt.Fprintf(&sb, "|%d|%d|%d|%d", t.sort.K, t.sort.W, t.p1, t.p2)
	for _, a := range t.args {
		fmt.Fprintf(&sb, ",%d", a.id)
		if a.bound {
			t.bound = true
		}
	}
	k := sb.String()
	if x, ok := b.tab[k]; ok {
		return x
	}
	t.id = b.next
	b.next++
	b.tab[k] = t
	b.all = append(b.all, t)
	return t
}

func sanitize(s string) string {
	var sb strings.Builder
	for _, r := range s {
		switch {
		case r >= 'a' && r <= 'z', r >= 'A' && r <= 'Z', r >= '0' && r <= '9', r == '_', r == '.', r == '$', r == '#', r == '@', r == '!':
			sb.WriteRune(r)
		default:
			sb.WriteByte('_')
		}
	}
	return sb.String()
}

// Var returns the variable of that name (declared once).
func (b *TB) Var(name string, s Sort) *Term {
	name = sanitize(name)
	if v, ok := b.vars[name]; ok {
		if v.sort != s {
			panic(fmt.Sprintf("var %s redeclared with different sort %v vs %v", name, v.sort, s))
		}
		return v
	}
	v := b.intern(&Term{op: "var", name: name, sort: s})
	b.vars[name] = v
	return v
}

// Fresh returns a new variable with a unique name derived from hint.
func (b *TB) Fresh(hint string, s Sort) *Term {
	hint = sanitize(hint)
	for {
		n := b.fresh[hint]
		b.fresh[hint] = n + 1
		name := hint
		if n > 0 {
			name = fmt.Sprintf("%s!%d", hint, n)
		}
		if _, ok := b.vars[name]; !ok {
			return b.Var(name, s)
		}
	}
}

// Bound returns a fresh bound variable (for quantifiers).
func (b *TB) Bound(hint string, s Sort) *Term {
	n := b.fresh["$b"+hint]
	b.fresh["$b"+hint] = n + 1
	t := b.intern(&Term{op: "bound", name: fmt.Sprintf("%s?%d", sanitize(hint), n), sort: s})
	t.bound = true
	return t
}

var bigOne = big.NewInt(1)

func mask(w int) *big.Int {
	m := new(big.Int).Lsh(bigOne, uint(w))
	return m.Sub(m, bigOne)
}

func (b *TB) Const(v *big.Int, w int) *Term {
	x := new(big.Int).Mod(v, new(big.Int).Lsh(bigOne, uint(w))) // Euclidean: non-negative
	return b.intern(&Term{op: "const", val: x, sort: BV(w)})
}

func (b *TB) ConstU(v uint64, w int) *Term { return b.Const(new(big.Int).SetUint64(v), w) }
func (b *TB) ConstI(v int64, w int) *Term  { return b.Const(big.NewInt(v), w) }

func (b *TB) True() *Term  { return b.intern(&Term{op: "true", sort: BoolSort}) }
func (b *TB) False() *Term { return b.intern(&Term{op: "false", sort: BoolSort}) }
func (b *TB) BoolC(v bool) *Term {
	if v {
		return b.True()
	}
	return b.False()
}

func (t *Term) IsConst() bool { return t.op == "const" }
func (t *Term) IsTrue() bool  { return t.op == "true" }
func (t *Term) IsFalse() bool { return t.op == "false" }
func (t *Term) Sort() Sort    { return t.sort }
func (t *Term) W() int        { return t.sort.W }

func (t *Term) Signed() *big.Int {
	if t.val.Bit(t.sort.W-1) == 1 {
		return new(big.Int).Sub(t.val, new(big.Int).Lsh(bigOne, uint(t.sort.W)))
	}
	return t.val
}

func (b *TB) mk(op string, s Sort, args ...*Term) *Term {
	return b.intern(&Term{op: op, args: args, sort: s})
}

// ---- Boolean connectives

func (b *TB) Not(x *Term) *Term {
	if x.sort.K != SBool {
		panic("Not: non-bool " + x.String())
	}
	switch {
	case x.IsTrue():
		return b.False()
	case x.IsFalse():
		return b.True()
	case x.op == "not":
		return x.args[0]
	}
	return b.mk("not", BoolSort, x)
}

func (b *TB) And(xs ...*Term) *Term {
	var out []*Term
	seen := map[int]bool{}
	for _, x := range xs {
		if x.sort.K != SBool {
			panic("And: non-bool " + x.String())
		}
		if x.IsFalse() {
			return x
		}
		if x.IsTrue() || seen[x.id] {
			continue
		}
		if x.op == "and" {
			for _, y := range x.args {
				if !seen[y.id] {
					seen[y.id] = true
					out = append(out, y)
				}
			}
			continue
		}
		seen[x.id] = true
		out = append(out, x)
	}
	for _, x := range out {
		if x.op == "not" && seen[x.args[0].id] {
			return b.False()
		}
	}
	switch len(out) {
	case 0:
		return b.True()
	case 1:
		return out[0]
	}
	return b.mk("and", BoolSort, out...)
}

func (b *TB) Or(xs ...*Term) *Term {
	var out []*Term
	seen := map[int]bool{}
	for _, x := range xs {
		if x.sort.K != SBool {
			panic("Or: non-bool " + x.String())
		}
		if x.IsTrue() {
			return x
		}
		if x.IsFalse() || seen[x.id] {
			continue
		}
		if x.op == "or" {
			for _, y := range x.args {
				if !seen[y.id] {
					seen[y.id] = true
					out = append(out, y)
				}
			}
			continue
		}
		seen[x.id] = true
		out = append(out, x)
	}
	for _, x := range out {
		if x.op == "not" && seen[x.args[0].id] {
			return b.True()
		}
	}
	switch len(out) {
	case 0:
		return b.False()
	case 1:
		return out[0]
	}
	return b.mk("or", BoolSort, out...)
}

func (b *TB) Implies(x, y *Term) *Term {
	if x.IsTrue() {
		return y
	}
	if x.IsFalse() || y.IsTrue() {
		return b.True()
	}
	if y.IsFalse() {
		return b.Not(x)
	}
	return b.mk("=>", BoolSort, x, y)
}

func (b *TB) Ite(c, x, y *Term) *Term {
	if c.sort.K != SBool {
		panic("Ite: non-bool cond")
	}
	if x.sort != y.sort {
		panic(fmt.Sprintf("Ite: sort mismatch %v vs %v: %s / %s", x.sort, y.sort, x, y))
	}
	if c.IsTrue() {
		return x
	}
	if c.IsFalse() {
		return y
	}
	if x == y {
		return x
	}
	if x.sort.K == SBool {
		if x.IsTrue() && y.IsFalse() {
			return c
		}
		if x.IsFalse() && y.IsTrue() {
			return b.Not(c)
		}
		if x.IsTrue() {
			return b.Or(c, y)
		}
		if x.IsFalse() {
			return b.And(b.Not(c), y)
		}
		if y.IsTrue() {
			return b.Or(b.Not(c), x)
		}
		if y.IsFalse() {
			return b.And(c, x)
		}
	}
	if c.op == "not" {
		return b.Ite(c.args[0], y, x)
	}
	if x.sort.K == SBV && !x.bound && !y.bound {
		if r := b.iteLinear(c, x, y); r != nil {
			return r
		}
	}
	return b.mk("ite", x.sort, c, x, y)
}

// iteLinear factors the common linear part out of an if-then-else:
// ite(c, L + dx, L + dy) = L + ite(c, dx, dy), with the residual ite oriented
// canonically (ite(c, dx, dy) or -ite(c, -dx, -dy)) so that a pointer that
// advances by d and a length that shrinks by d share the same atom.
func (b *TB) iteLinear(c, x, y *Term) *Term {
	lx, ly := b.toLin(x), b.toLin(y)
	if len(lx.atoms) == 0 && len(ly.atoms) == 0 {
		return nil // both constants: keep the plain ite (constIteTree relies on it)
	}
	m := mask(lx.w)
	common := lin{w: lx.w, c: new(big.Int)}
	rx := lin{w: lx.w, c: lx.c}
	ry := lin{w: lx.w, c: ly.c}
	i, j := 0, 0
	for i < len(lx.atoms) || j < len(ly.atoms) {
		switch {
		case j >= len(ly.atoms) || (i < len(lx.atoms) && lx.atoms[i].id < ly.atoms[j].id):
			rx.atoms = append(rx.atoms, lx.atoms[i])
			rx.coef = append(rx.coef, lx.coef[i])
			i++
		case i >= len(lx.atoms) || ly.atoms[j].id < lx.atoms[i].id:
			ry.atoms = append(ry.atoms, ly.atoms[j])
			ry.coef = append(ry.coef, ly.coef[j])
			j++
		default:
			if new(big.Int).And(lx.coef[i], m).Cmp(new(big.Int).And(ly.coef[j], m)) == 0 {
				common.atoms = append(common.atoms, lx.atoms[i])
				common.coef = append(common.coef, lx.coef[i])
			} else {
				rx.atoms = append(rx.atoms, lx.atoms[i])
				rx.coef = append(rx.coef, lx.coef[i])
				ry.atoms = append(ry.atoms, ly.atoms[j])
				ry.coef = append(ry.coef, ly.coef[j])
			}
			i++
			j++
		}
	}
	if len(common.atoms) == 0 {
		return nil
	}
	// keep the smaller constant in the common part
	dx := b.fromLin(rx)
	dy := b.fromLin(ry)
	if dx == dy {
		return b.Add(b.fromLin(common), dx)
	}
	// canonical orientation: the residual whose negation has the smaller id wins
	ndx, ndy := b.Neg(dx), b.Neg(dy)
	var res *Term
	if ndx.id+ndy.id < dx.id+dy.id {
		res = b.Neg(b.mkIteRaw(c, ndx, ndy))
	} else {
		res = b.mkIteRaw(c, dx, dy)
	}
	return b.Add(b.fromLin(common), res)
}

func (b *TB) mkIteRaw(c, x, y *Term) *Term {
	if x == y {
		return x
	}
	return b.mk("ite", x.sort, c, x, y)
}

func (b *TB) Eq(x, y *Term) *Term {
	if x.sort != y.sort {
		panic(fmt.Sprintf("Eq: sort mismatch %v vs %v: %s = %s", x.sort, y.sort, x, y))
	}
	if x == y {
		return b.True()
	}
	if x.IsConst() && y.IsConst() {
		return b.BoolC(x.val.Cmp(y.val) == 0)
	}
	if x.sort.K == SBool {
		if x.IsTrue() {
			return y
		}
		if y.IsTrue() {
			return x
		}
		if x.IsFalse() {
			return b.Not(y)
		}
		if y.IsFalse() {
			return b.Not(x)
		}
	}
	if x.sort.K == SBV {
		// linear difference is a constant
		if d := b.Sub(x, y); d.IsConst() {
			return b.BoolC(d.val.Sign() == 0)
		}
		// ite-tree with constant leaves compared with a constant: distribute
		if y.IsConst() && constIteTree(x, 24) {
			return b.Ite(x.args[0], b.Eq(x.args[1], y), b.Eq(x.args[2], y))
		}
		if x.IsConst() && constIteTree(y, 24) {
			return b.Ite(y.args[0], b.Eq(y.args[1], x), b.Eq(y.args[2], x))
		}
	}
	if x.id > y.id {
		x, y = y, x
	}
	return b.mk("=", BoolSort, x, y)
}

// constIteTree: t is an if-then-else whose leaves are all constants (at most
// budget of them).
func constIteTree(t *Term, budget int) bool {
	if t.op != "ite" {
		return false
	}
	n := 0
	var walk func(t *Term) bool
	walk = func(t *Term) bool {
		if t.op == "ite" {
			return walk(t.args[1]) && walk(t.args[2])
		}
		n++
		return t.IsConst() && n <= budget
	}
	return walk(t)
}

func (b *TB) Ne(x, y *Term) *Term { return b.Not(b.Eq(x, y)) }

// ---- Bit-vector arithmetic

// ---- linear normal form
//
// Every sum / difference / negation / multiplication by a constant / left
// shift by a constant is kept as a canonical n-ary
//     (bvadd m1 ... mk [c])
// with monomials mi = atom or (bvmul atom K), atoms ordered by id and the
// constant last. Two polynomially equal linear expressions are therefore the
// same hash-consed term, and "base + constant" address comparisons are
// decided syntactically.

type lin struct {
	w     int
	c     *big.Int
	atoms []*Term
	coef  []*big.Int
}

func (b *TB) toLin(t *Term) lin {
	w := t.sort.W
	l := lin{w: w, c: new(big.Int)}
	addMono := func(m *Term) {
		if m.IsConst() {
			l.c = new(big.Int).Add(l.c, m.val)
			return
		}
		if m.op == "bvmul" && len(m.args) == 2 && m.args[1].IsConst() {
			l.atoms = append(l.atoms, m.args[0])
			l.coef = append(l.coef, m.args[1].val)
			return
		}
		l.atoms = append(l.atoms, m)
		l.coef = append(l.coef, bigOne)
	}
	if t.op == "bvadd" {
		for _, a := range t.args {
			addMono(a)
		}
	} else {
		addMono(t)
	}
	l.c.And(l.c, mask(w))
	return l
}

func (b *TB) fromLin(l lin) *Term {
	var ms []*Term
	for i, a := range l.atoms {
		k := new(big.Int).And(l.coef[i], mask(l.w))
		if k.Sign() == 0 {
			continue
		}
		if k.Cmp(bigOne) == 0 {
			ms = append(ms, a)
		} else {
			ms = append(ms, b.mk("bvmul", BV(l.w), a, b.Const(k, l.w)))
		}
	}
	c := new(big.Int).And(l.c, mask(l.w))
	if len(ms) == 0 {
		return b.Const(c, l.w)
	}
	if c.Sign() != 0 {
		ms = append(ms, b.Const(c, l.w))
	}
	if len(ms) == 1 {
		return ms[0]
	}
	return b.mk("bvadd", BV(l.w), ms...)
}

// linCombine returns x + sy*y (sy = +1 / -1 / any constant), merged and sorted.
func (b *TB) linCombine(x, y lin, sy *big.Int) lin {
	m := mask(x.w)
	r := lin{w: x.w, c: new(big.Int).Add(x.c, new(big.Int).Mul(y.c, sy))}
	r.c.And(r.c, m)
	i, j := 0, 0
	for i < len(x.atoms) || j < len(y.atoms) {
		switch {
		case j >= len(y.atoms) || (i < len(x.atoms) && x.atoms[i].id < y.atoms[j].id):
			r.atoms = append(r.atoms, x.atoms[i])
			r.coef = append(r.coef, x.coef[i])
			i++
		case i >= len(x.atoms) || y.atoms[j].id < x.atoms[i].id:
			k := new(big.Int).Mul(y.coef[j], sy)
			k.And(k, m)
			if k.Sign() != 0 {
				r.atoms = append(r.atoms, y.atoms[j])
				r.coef = append(r.coef, k)
			}
			j++
		default:
			k := new(big.Int).Add(x.coef[i], new(big.Int).Mul(y.coef[j], sy))
			k.And(k, m)
			if k.Sign() != 0 {
				r.atoms = append(r.atoms, x.atoms[i])
				r.coef = append(r.coef, k)
			}
			i++
			j++
		}
	}
	return r
}

func (b *TB) linScale(x lin, k *big.Int) lin {
	return b.linCombine(lin{w: x.w, c: new(big.Int)}, x, k)
}

// splitAdd decomposes t into (base, constant) with t = base + constant;
// base == nil means t is the constant.
func (b *TB) splitAdd(t *Term) (*Term, *big.Int) {
	if t.IsConst() {
		return nil, t.val
	}
	if t.op == "bvadd" {
		last := t.args[len(t.args)-1]
		if last.IsConst() {
			rest := t.args[:len(t.args)-1]
			if len(rest) == 1 {
				return rest[0], last.val
			}
			return b.mk("bvadd", t.sort, rest...), last.val
		}
	}
	return t, new(big.Int)
}

func (b *TB) checkBV2(op string, x, y *Term) {
	if x.sort.K != SBV || x.sort != y.sort {
		panic(fmt.Sprintf("%s: sort mismatch %v vs %v: %s , %s", op, x.sort, y.sort, x, y))
	}
}

func (b *TB) Add(x, y *Term) *Term {
	b.checkBV2("bvadd", x, y)
	return b.fromLin(b.linCombine(b.toLin(x), b.toLin(y), bigOne))
}

var bigMinusOne = big.NewInt(-1)

func (b *TB) Neg(x *Term) *Term {
	return b.fromLin(b.linScale(b.toLin(x), bigMinusOne))
}

func (b *TB) Sub(x, y *Term) *Term {
	b.checkBV2("bvsub", x, y)
	return b.fromLin(b.linCombine(b.toLin(x), b.toLin(y), bigMinusOne))
}

func (b *TB) Mul(x, y *Term) *Term {
	b.checkBV2("bvmul", x, y)
	if x.IsConst() {
		x, y = y, x
	}
	if y.IsConst() {
		return b.fromLin(b.linScale(b.toLin(x), y.val))
	}
	if x.id > y.id {
		x, y = y, x
	}
	return b.mk("bvmul", x.sort, x, y)
}

func (b *TB) binConst(op string, x, y *Term) *Term {
	w := x.sort.W
	m := mask(w)
	switch op {
	case "bvand":
		return b.Const(new(big.Int).And(x.val, y.val), w)
	case "bvor":
		return b.Const(new(big.Int).Or(x.val, y.val), w)
	case "bvxor":
		return b.Const(new(big.Int).Xor(x.val, y.val), w)
	case "bvudiv":
		if y.val.Sign() == 0 {
			return b.Const(m, w)
		}
		return b.Const(new(big.Int).Quo(x.val, y.val), w)
	case "bvurem":
		if y.val.Sign() == 0 {
			return x
		}
		return b.Const(new(big.Int).Rem(x.val, y.val), w)
	case "bvshl":
		if y.val.Cmp(big.NewInt(int64(w))) >= 0 {
			return b.ConstU(0, w)
		}
		return b.Const(new(big.Int).Lsh(x.val, uint(y.val.Uint64())), w)
	case "bvlshr":
		if y.val.Cmp(big.NewInt(int64(w))) >= 0 {
			return b.ConstU(0, w)
		}
		return b.Const(new(big.Int).Rsh(x.val, uint(y.val.Uint64())), w)
	case "bvashr":
		s := x.Signed()
		sh := uint(w)
		if y.val.Cmp(big.NewInt(int64(w))) < 0 {
			sh = uint(y.val.Uint64())
		}
		return b.Const(new(big.Int).Rsh(s, sh), w)
	}
	return nil
}

func (b *TB) Bin(op string, x, y *Term) *Term {
	b.checkBV2(op, x, y)
	switch op {
	case "bvadd":
		return b.Add(x, y)
	case "bvsub":
		return b.Sub(x, y)
	case "bvmul":
		return b.Mul(x, y)
	}
	if x.IsConst() && y.IsConst() {
		if r := b.binConst(op, x, y); r != nil {
			return r
		}
	}
	w := x.sort.W
	switch op {
	case "bvand":
		if x == y {
			return x
		}
		for _, p := range [][2]*Term{{x, y}, {y, x}} {
			if p[1].IsConst() {
				if p[1].val.Sign() == 0 {
					return p[1]
				}
				if p[1].val.Cmp(mask(w)) == 0 {
					return p[0]
				}
			}
		}
	case "bvor", "bvxor":
		if x == y {
			if op == "bvor" {
				return x
			}
			return b.ConstU(0, w)
		}
		for _, p := range [][2]*Term{{x, y}, {y, x}} {
			if p[1].IsConst() && p[1].val.Sign() == 0 {
				return p[0]
			}
		}
	case "bvshl", "bvlshr", "bvashr":
		if y.IsConst() && y.val.Sign() == 0 {
			return x
		}
		if op == "bvshl" && y.IsConst() {
			if y.val.Cmp(big.NewInt(int64(w))) >= 0 {
				return b.ConstU(0, w)
			}
			return b.Mul(x, b.Const(new(big.Int).Lsh(bigOne, uint(y.val.Uint64())), w))
		}
	}
	if (op == "bvand" || op == "bvor" || op == "bvxor") && x.id > y.id {
		x, y = y, x
	}
	return b.mk(op, x.sort, x, y)
}

func (b *TB) BVNot(x *Term) *Term {
	if x.IsConst() {
		return b.Const(new(big.Int).Xor(x.val, mask(x.sort.W)), x.sort.W)
	}
	if x.op == "bvnot" {
		return x.args[0]
	}
	return b.mk("bvnot", x.sort, x)
}

func (b *TB) Cmp(op string, x, y *Term) *Term {
	b.checkBV2(op, x, y)
	if x.IsConst() && y.IsConst() {
		var c int
		if op == "bvult" || op == "bvule" {
			c = x.val.Cmp(y.val)
		} else {
			c = x.Signed().Cmp(y.Signed())
		}
		switch op {
		case "bvult", "bvslt":
			return b.BoolC(c < 0)
		default:
			return b.BoolC(c <= 0)
		}
	}
	if x == y {
		return b.BoolC(op == "bvule" || op == "bvsle")
	}
	if y.IsConst() && constIteTree(x, 24) {
		return b.Ite(x.args[0], b.Cmp(op, x.args[1], y), b.Cmp(op, x.args[2], y))
	}
	if x.IsConst() && constIteTree(y, 24) {
		return b.Ite(y.args[0], b.Cmp(op, x, y.args[1]), b.Cmp(op, x, y.args[2]))
	}
	if op == "bvult" && y.IsConst() && y.val.Sign() == 0 {
		return b.False()
	}
	if op == "bvule" && x.IsConst() && x.val.Sign() == 0 {
		return b.True()
	}
	return b.mk(op, BoolSort, x, y)
}

func (b *TB) Ult(x, y *Term) *Term { return b.Cmp("bvult", x, y) }
func (b *TB) Ule(x, y *Term) *Term { return b.Cmp("bvule", x, y) }
func (b *TB) Slt(x, y *Term) *Term { return b.Cmp("bvslt", x, y) }
func (b *TB) Sle(x, y *Term) *Term { return b.Cmp("bvsle", x, y) }

func (b *TB) Extract(hi, lo int, x *Term) *Term {
	if x.sort.K != SBV || hi >= x.sort.W || lo < 0 || hi < lo {
		panic(fmt.Sprintf("bad extract [%d:%d] of %v", hi, lo, x.sort))
	}
	if lo == 0 && hi == x.sort.W-1 {
		return x
	}
	w := hi - lo + 1
	if x.IsConst() {
		return b.Const(new(big.Int).Rsh(x.val, uint(lo)), w)
	}
	switch x.op {
	case "extract":
		return b.Extract(hi+x.p2, lo+x.p2, x.args[0])
	case "zero_extend":
		iw := x.args[0].sort.W
		if hi < iw {
			return b.Extract(hi, lo, x.args[0])
		}
		if lo >= iw {
			return b.ConstU(0, w)
		}
	case "sign_extend":
		iw := x.args[0].sort.W
		if hi < iw {
			return b.Extract(hi, lo, x.args[0])
		}
	case "concat":
		lw := x.args[1].sort.W
		if hi < lw {
			return b.Extract(hi, lo, x.args[1])
		}
		if lo >= lw {
			return b.Extract(hi-lw, lo-lw, x.args[0])
		}
	case "ite":
		if x.args[1].IsConst() && x.args[2].IsConst() {
			return b.Ite(x.args[0], b.Extract(hi, lo, x.args[1]), b.Extract(hi, lo, x.args[2]))
		}
	}
	return b.intern(&Term{op: "extract", args: []*Term{x}, sort: BV(w), p1: hi, p2: lo})
}

func (b *TB) ZExt(x *Term, w int) *Term {
	if x.sort.W == w {
		return x
	}
	if x.sort.W > w {
		return b.Extract(w-1, 0, x)
	}
	if x.IsConst() {
		return b.Const(x.val, w)
	}
	if x.op == "zero_extend" {
		return b.ZExt(x.args[0], w)
	}
	return b.intern(&Term{op: "zero_extend", args: []*Term{x}, sort: BV(w), p1: w - x.sort.W})
}

func (b *TB) SExt(x *Term, w int) *Term {
	if x.sort.W == w {
		return x
	}
	if x.sort.W > w {
		return b.Extract(w-1, 0, x)
	}
	if x.IsConst() {
		return b.Const(x.Signed(), w)
	}
	if x.op == "zero_extend" {
		return b.ZExt(x.args[0], w)
	}
	return b.intern(&Term{op: "sign_extend", args: []*Term{x}, sort: BV(w), p1: w - x.sort.W})
}

func (b *TB) Concat(hi, lo *Term) *Term {
	if hi.IsConst() && lo.IsConst() {
		v := new(big.Int).Lsh(hi.val, uint(lo.sort.W))
		v.Or(v, lo.val)
		return b.Const(v, hi.sort.W+lo.sort.W)
	}
	if hi.IsConst() && hi.val.Sign() == 0 {
		return b.ZExt(lo, hi.sort.W+lo.sort.W)
	}
	// concat(extract[h:m+1] x, extract[m:l] x) = extract[h:l] x
	if hi.op == "extract" && lo.op == "extract" && hi.args[0] == lo.args[0] && hi.p2 == lo.p1+1 {
		return b.Extract(hi.p1, lo.p2, hi.args[0])
	}
	return b.mk("concat", BV(hi.sort.W+lo.sort.W), hi, lo)
}

// ---- Arrays and UFs

func (b *TB) ArrVar(name string) *Term { return b.Var(name, Sort{K: SArr}) }

func (b *TB) Select(a, i *Term) *Term {
	if a.sort.K != SArr || i.sort != BV(64) {
		panic("bad select")
	}
	return b.mk("select", BV(8), a, i)
}

func (b *TB) DeclUF(name string, args []Sort, ret Sort) *UF {
	name = sanitize(name)
	if u, ok := b.ufs[name]; ok {
		return u
	}
	u := &UF{Name: name, Args: args, Ret: ret}
	b.ufs[name] = u
	return u
}

func (b *TB) App(u *UF, args ...*Term) *Term {
	if len(args) != len(u.Args) {
		panic("UF arity: " + u.Name)
	}
	for i, a := range args {
		if a.sort != u.Args[i] {
			panic(fmt.Sprintf("UF %s arg %d sort %v want %v", u.Name, i, a.sort, u.Args[i]))
		}
	}
	return b.intern(&Term{op: "app", name: u.Name, args: args, sort: u.Ret})
}

func (b *TB) Forall(vars []*Term, body *Term) *Term {
	if body.IsTrue() || body.IsFalse() {
		return body
	}
	args := append([]*Term{body}, vars...)
	t := b.intern(&Term{op: "forall", args: args, sort: BoolSort})
	// t.bound stays true if body mentions outer bound vars; recompute:
	t.bound = containsOtherBound(body, vars)
	return t
}

func (b *TB) Exists(vars []*Term, body *Term) *Term {
	return b.Not(b.Forall(vars, b.Not(body)))
}

func containsOtherBound(t *Term, vars []*Term) bool {
	if !t.bound {
		return false
	}
	seen := map[int]bool{}
	var walk func(t *Term) bool
	walk = func(t *Term) bool {
		if !t.bound || seen[t.id] {
			return false
		}
		seen[t.id] = true
		if t.op == "bound" {
			for _, v := range vars {
				if v == t {
					return false
				}
			}
			return true
		}
		if t.op == "forall" {
			return containsOtherBound(t.args[0], append(append([]*Term{}, vars...), t.args[1:]...))
		}
		for _, a := range t.args {
			if walk(a) {
				return true
			}
		}
		return false
	}
	return walk(t)
}

// ---- Substitution (used to instantiate spec bodies / quantifiers)

func (b *TB) Subst(t *Term, m map[*Term]*Term) *Term {
	return b.SubstC(t, m, map[int]*Term{})
}

// SubstC is Subst with a caller-provided memo table (shared across calls
// that use the same substitution).
func (b *TB) SubstC(t *Term, m map[*Term]*Term, cache map[int]*Term) *Term {
	var rec func(t *Term) *Term
	rec = func(t *Term) *Term {
		if r, ok := m[t]; ok {
			return r
		}
		if len(t.args) == 0 {
			return t
		}
		if r, ok := cache[t.id]; ok {
			return r
		}
		args := make([]*Term, len(t.args))
		ch := false
		for i, a := range t.args {
			args[i] = rec(a)
			if args[i] != a {
				ch = true
			}
		}
		r := t
		if ch {
			r = b.rebuild(t, args)
		}
		cache[t.id] = r
		return r
	}
	return rec(t)
}

func (b *TB) rebuild(t *Term, a []*Term) *Term {
	switch t.op {
	case "not":
		return b.Not(a[0])
	case "and":
		return b.And(a...)
	case "or":
		return b.Or(a...)
	case "=>":
		return b.Implies(a[0], a[1])
	case "ite":
		return b.Ite(a[0], a[1], a[2])
	case "=":
		return b.Eq(a[0], a[1])
	case "bvneg":
		return b.Neg(a[0])
	case "bvnot":
		return b.BVNot(a[0])
	case "bvult", "bvule", "bvslt", "bvsle":
		return b.Cmp(t.op, a[0], a[1])
	case "extract":
		return b.Extract(t.p1, t.p2, a[0])
	case "zero_extend":
		return b.ZExt(a[0], t.sort.W)
	case "sign_extend":
		return b.SExt(a[0], t.sort.W)
	case "concat":
		return b.Concat(a[0], a[1])
	case "select":
		return b.Select(a[0], a[1])
	case "app":
		return b.intern(&Term{op: "app", name: t.name, args: a, sort: t.sort})
	case "forall":
		return b.Forall(a[1:], a[0])
	case "bvadd":
		r := a[0]
		for _, x := range a[1:] {
			r = b.Add(r, x)
		}
		return r
	case "bvsub", "bvmul", "bvand", "bvor", "bvxor", "bvudiv", "bvurem", "bvsdiv", "bvsrem", "bvshl", "bvlshr", "bvashr":
		if len(a) == 2 {
			return b.Bin(t.op, a[0], a[1])
		}
	}
	return b.intern(&Term{op: t.op, args: a, sort: t.sort, name: t.name, p1: t.p1, p2: t.p2})
}

// ---- Printing

func (t *Term) head() string {
	switch t.op {
	case "const":
		w := t.sort.W
		if w%4 == 0 {
			return fmt.Sprintf("#x%0*s", w/4, t.val.Text(16))
		}
		return fmt.Sprintf("#b%0*s", w, t.val.Text(2))
	case "var":
		return t.name
	case "bound":
		return "|" + t.name + "|"
	case "true", "false":
		return t.op
	}
	return ""
}

func (t *Term) String() string {
	var sb strings.Builder
	t.write(&sb, nil, 0)
	s := sb.String()
	if len(s) > 400 {
		s = s[:400] + "…"
	}
	return s
}

func (t *Term) write(sb *strings.Builder, named map[int]string, depth int) {
	if h := t.head(); h != "" {
		sb.WriteString(h)
		return
	}
	if named != nil {
		if n, ok := named[t.id]; ok {
			sb.WriteString(n)
			return
		}
	}
	if named == nil && depth > 12 {
		sb.WriteString("…")
		return
	}
	switch t.op {
	case "extract":
		fmt.Fprintf(sb, "((_ extract %d %d) ", t.p1, t.p2)
		t.args[0].write(sb, named, depth+1)
		sb.WriteByte(')')
		return
	case "zero_extend", "sign_extend":
		fmt.Fprintf(sb, "((_ %s %d) ", t.op, t.p1)
		t.args[0].write(sb, named, depth+1)
		sb.WriteByte(')')
		return
	case "forall":
		sb.WriteString("(forall (")
		for _, v := range t.args[1:] {
			fmt.Fprintf(sb, "(|%s| %s)", v.name, v.sort)
		}
		sb.WriteString(") ")
		t.args[0].write(sb, named, depth+1)
		sb.WriteByte(')')
		return
	}
	op := t.op
	if op == "app" {
		op = t.name
		if len(t.args) == 0 {
			sb.WriteString(op)
			return
		}
	}
	sb.WriteByte('(')
	sb.WriteString(op)
	for _, a := range t.args {
		sb.WriteByte(' ')
		a.write(sb, named, depth+1)
	}
	sb.WriteByte(')')
}

// Script renders an SMT-LIB script asserting all of asserts and checking
// satisfiability; getvals lists terms whose values are requested on sat.
func (b *TB) Script(asserts []*Term, getvals []*Term, logic string) string {
	// collect reachable nodes, count parents
	parents := map[int]int{}
	var order []*Term
	seen := map[int]bool{}
	var walk func(t *Term)
	walk = func(t *Term) {
		parents[t.id]++
		if seen[t.id] {
			return
		}
		seen[t.id] = true
		for _, a := range t.args {
			walk(a)
		}
		order = append(order, t) // post-order: children first
	}
	roots := append(append([]*Term{}, asserts...), getvals...)
	for _, r := range roots {
		walk(r)
	}
	var sb strings.Builder
	sb.WriteString("(set-option :produce-models true)\n")
	if logic != "" {
		fmt.Fprintf(&sb, "(set-logic %s)\n", logic)
	}
	// declarations
	var vars []*Term
	ufUsed := map[string]bool{}
	for _, t := range order {
		if t.op == "var" {
			vars = append(vars, t)
		}
		if t.op == "app" {
			ufUsed[t.name] = true
		}
	}
	sort.Slice(vars, func(i, j int) bool { return vars[i].name < vars[j].name })
	for _, v := range vars {
		fmt.Fprintf(&sb, "(declare-const %s %s)\n", v.name, v.sort)
	}
	var ufn []string
	for n := range ufUsed {
		ufn = append(ufn, n)
	}
	sort.Strings(ufn)
	for _, n := range ufn {
		u := b.ufs[n]
		sb.WriteString("(declare-fun " + u.Name + " (")
		for i, a := range u.Args {
			if i > 0 {
				sb.WriteByte(' ')
			}
			sb.WriteString(a.String())
		}
		sb.WriteString(") " + u.Ret.String() + ")\n")
	}
	named := map[int]string{}
	for _, t := range order {
		if len(t.args) == 0 || t.bound {
			continue
		}
		if parents[t.id] > 1 {
			var body strings.Builder
			t.write(&body, namedWithout(named, t.id), 0)
			n := fmt.Sprintf("t!%d", t.id)
			fmt.Fprintf(&sb, "(define-fun %s () %s %s)\n", n, t.sort, body.String())
			named[t.id] = n
		}
	}
	for _, a := range asserts {
		sb.WriteString("(assert ")
		a.write(&sb, named, 0)
		sb.WriteString(")\n")
	}
	sb.WriteString("(check-sat)\n")
	if len(getvals) > 0 {
		sb.WriteString("(get-value (")
		for i, g := range getvals {
			if i > 0 {
				sb.WriteByte(' ')
			}
			g.write(&sb, named, 0)
		}
		sb.WriteString("))\n")
	}
	return sb.String()
}

func namedWithout(m map[int]string, id int) map[int]string {
	// the node itself is not yet in the map when its body is printed
	return m
}

func hasQuantifier(ts []*Term) bool {
	seen := map[int]bool{}
	var walk func(t *Term) bool
	walk = func(t *Term) bool {
		if seen[t.id] {
			return false
		}
		seen[t.id] = true
		if t.op == "forall" {
			return true
		}
		for _, a := range t.args {
			if walk(a) {
				return true
			}
		}
		return false
	}
	for _, t := range ts {
		if walk(t) {
			return true
		}
	}
	return false
}

// Weaken returns a quantifier-free formula implied by t (t asserted as a
// hypothesis): every quantified subformula at positive polarity becomes true,
// at negative polarity false. ok is false if a quantifier occurs where the
// polarity is not determined (under ite conditions, Boolean equalities).
func (b *TB) Weaken(t *Term) (*Term, bool) {
	type key struct {
		id  int
		pos bool
	}
	cache := map[key]*Term{}
	okAll := true
	hasQ := map[int]bool{}
	var qwalk func(t *Term) bool
	qwalk = func(t *Term) bool {
		if v, ok := hasQ[t.id]; ok {
			return v
		}
		r := t.op == "forall"
		for _, a := range t.args {
			if qwalk(a) {
				r = true
			}
		}
		hasQ[t.id] = r
		return r
	}
	var rec func(t *Term, pos bool) *Term
	rec = func(t *Term, pos bool) *Term {
		if !qwalk(t) {
			return t
		}
		k := key{t.id, pos}
		if r, ok := cache[k]; ok {
			return r
		}
		var r *Term
		switch t.op {
		case "forall":
			r = b.BoolC(pos)
		case "not":
			r = b.Not(rec(t.args[0], !pos))
		case "and", "or":
			as := make([]*Term, len(t.args))
			for i, a := range t.args {
				as[i] = rec(a, pos)
			}
			if t.op == "and" {
				r = b.And(as...)
			} else {
				r = b.Or(as...)
			}
		case "=>":
			r = b.Implies(rec(t.args[0], !pos), rec(t.args[1], pos))
		case "ite":
			if qwalk(t.args[0]) || t.sort.K != SBool {
				okAll = false
				r = t
			} else {
				r = b.Ite(t.args[0], rec(t.args[1], pos), rec(t.args[2], pos))
			}
		default:
			okAll = false
			r = t
		}
		cache[k] = r
		return r
	}
	r := rec(t, true)
	return r, okAll
}
