package main

// Flat byte-addressed little-endian memory. A memory is a persistent chain of
// update nodes over a base SMT array; reads are resolved by the engine into
// ite-terms over selects of base arrays (read-over-write), so that frame
// conditions (havoc of a range, memmove) need neither quantifiers nor lambda
// terms and the same query text is accepted by z3 and cvc5.

import (
	"fmt"
	"math/big"
)

type memKind int

const (
	mBase memKind = iota
	mStore
	mHavoc // bytes in [lo, lo+n) come from arr; n == nil means everything
	mZero  // bytes in [lo, lo+n) are zero
	mCopy  // memmove(dst, src, n) reading from prev
	mMerge
	mRegion // bytes in [lo, lo+n) come from the memory inner
)

type Mem struct {
	id    int
	kind  memKind
	prev  *Mem
	arr   *Term // base / havoc source
	addr  *Term // store address, havoc/zero lo, copy dst
	val   *Term // store value (BV8)
	n     *Term // havoc/zero/copy length (BV64)
	src   *Term // copy source
	conds []*Term
	mems  []*Mem
	inner *Mem
	depth int
}

type MemCtx struct {
	tb    *TB
	next  int
	cache map[[2]int]*Term
	rom   func(a *Term) (*Term, bool) // read-only regions (string constants, imported tables)
	liftDepth int
	wcache    map[[3]int]*Term
	relLo, relD *Term // while reading the inner memory of a region: its base and the offset of the address read
	noWordLift bool
	small     map[*Term][2]int64 // hint: term known to take few values (case-split in addresses)
}

func NewMemCtx(tb *TB) *MemCtx {
	return &MemCtx{tb: tb, cache: map[[2]int]*Term{}, small: map[*Term][2]int64{}}
}

func (mc *MemCtx) node(m *Mem) *Mem {
	m.id = mc.next
	mc.next++
	if m.prev != nil {
		m.depth = m.prev.depth + 1
	}
	return m
}

func (mc *MemCtx) Base(name string) *Mem {
	return mc.node(&Mem{kind: mBase, arr: mc.tb.Fresh(name, Sort{K: SArr})})
}

func (mc *MemCtx) Store8(m *Mem, addr, val *Term) *Mem {
	if val.sort != BV(8) {
		panic("Store8: value not a byte")
	}
	return mc.node(&Mem{kind: mStore, prev: m, addr: addr, val: val})
}

// StoreLE stores the w-bit value v (w multiple of 8) little-endian at addr.
func (mc *MemCtx) StoreLE(m *Mem, addr, v *Term) *Mem {
	tb := mc.tb
	for i := 0; i < v.sort.W/8; i++ {
		m = mc.Store8(m, tb.Add(addr, tb.ConstU(uint64(i), 64)), tb.Extract(i*8+7, i*8, v))
	}
	return m
}

// inRange: lo <= a < lo+n, assuming the region does not wrap.
func (mc *MemCtx) inRange(a, lo, n *Term) *Term {
	return mc.tb.Ult(mc.tb.Sub(a, lo), n)
}

func (mc *MemCtx) HavocRange(m *Mem, lo, n *Term, hint string) *Mem {
	return mc.node(&Mem{kind: mHavoc, prev: m, addr: lo, n: n, arr: mc.tb.Fresh(hint, Sort{K: SArr})})
}

func (mc *MemCtx) HavocAll(hint string) *Mem { return mc.Base(hint) }

func (mc *MemCtx) Zero(m *Mem, lo, n *Term) *Mem {
	return mc.node(&Mem{kind: mZero, prev: m, addr: lo, n: n})
}

func (mc *MemCtx) Copy(m *Mem, dst, src, n *Term) *Mem {
	if n.IsConst() && n.val.Sign() == 0 {
		return m
	}
	return mc.node(&Mem{kind: mCopy, prev: m, addr: dst, src: src, n: n})
}

func (mc *MemCtx) Region(m *Mem, lo, n *Term, inner *Mem) *Mem {
	r := mc.node(&Mem{kind: mRegion, prev: m, addr: lo, n: n, inner: inner})
	if inner.depth+1 > r.depth {
		r.depth = inner.depth + 1
	}
	return r
}

func (mc *MemCtx) Merge(conds []*Term, mems []*Mem) *Mem {
	if len(mems) == 0 {
		panic("empty merge")
	}
	same := true
	for _, m := range mems[1:] {
		if m != mems[0] {
			same = false
		}
	}
	if same {
		return mems[0]
	}
	d := 0
	for _, m := range mems {
		if m.depth > d {
			d = m.depth
		}
	}
	n := mc.node(&Mem{kind: mMerge, conds: conds, mems: mems})
	n.depth = d + 1
	return n
}

// Read8 returns the byte at address a.
func (mc *MemCtx) Read8(m *Mem, a *Term) *Term {
	if a.sort != BV(64) {
		panic(fmt.Sprintf("Read8: address sort %v", a.sort))
	}
	if mc.rom != nil {
		if t, ok := mc.rom(a); ok {
			return t
		}
	}
	// An address whose offset is an if-then-else over a few alternatives is
	// read as the if-then-else of the reads: the leaves are then plain
	// "base + constant" selects, which both the simplifier and the solvers
	// handle far better than a select at a computed index.
	if !a.bound {
		if c, x, y, ok := mc.splitIteAddr(a); ok {
			mc.liftDepth++
			r := mc.tb.Ite(c, mc.Read8(m, x), mc.Read8(m, y))
			mc.liftDepth--
			return r
		}
	}
	if !a.bound && len(mc.small) > 0 && mc.liftDepth < 3 {
		if r, ok := mc.expandSmall(m, a); ok {
			return r
		}
	}
	key := [2]int{m.id, a.id}
	if !a.bound {
		if t, ok := mc.cache[key]; ok {
			return t
		}
	}
	tb := mc.tb
	var r *Term
	switch m.kind {
	case mBase:
		r = tb.Select(m.arr, a)
	case mStore:
		eq := tb.Eq(a, m.addr)
		if eq.IsTrue() {
			r = m.val
		} else {
			r = tb.Ite(eq, m.val, mc.Read8(m.prev, a))
		}
	case mHavoc:
		in := mc.inRange(a, m.addr, m.n)
		r = tb.Ite(in, tb.Select(m.arr, a), mc.Read8(m.prev, a))
	case mZero:
		in := mc.inRange(a, m.addr, m.n)
		r = tb.Ite(in, tb.ConstU(0, 8), mc.Read8(m.prev, a))
	case mCopy:
		off := tb.Sub(a, m.addr)
		in := tb.Ult(off, m.n)
		if in.IsFalse() {
			r = mc.Read8(m.prev, a)
		} else {
			r = tb.Ite(in, mc.Read8(m.prev, tb.Add(m.src, off)), mc.Read8(m.prev, a))
		}
	case mRegion:
		in := mc.inRange(a, m.addr, m.n)
		switch {
		case in.IsTrue():
			r = mc.Read8(m.inner, a)
		case in.IsFalse():
			r = mc.Read8(m.prev, a)
		default:
			sl, sd := mc.relLo, mc.relD
			mc.relLo, mc.relD = m.addr, tb.Sub(a, m.addr)
			inner := mc.readInner(m, a)
			mc.relLo, mc.relD = sl, sd
			r = tb.Ite(in, inner, mc.Read8(m.prev, a))
		}
	case mMerge:
		// find common ancestor shortcut: if all branches resolve to the same term, ite collapses
		r = mc.Read8(m.mems[len(m.mems)-1], a)
		for i := len(m.mems) - 2; i >= 0; i-- {
			r = tb.Ite(m.conds[i], mc.Read8(m.mems[i], a), r)
		}
	}
	if !a.bound {
		mc.cache[key] = r
	}
	return r
}

// readInner reads address a (somewhere inside region m) from the region's
// inner memory: only the stores made on top of m.prev matter there, below them
// the byte is that of m.prev. Uncached (depends on the relative context).
func (mc *MemCtx) readInner(m *Mem, a *Term) *Term {
	tb := mc.tb
	var stores []*Mem
	x := m.inner
	for x != m.prev && x != nil && x.kind == mStore {
		stores = append(stores, x)
		x = x.prev
	}
	if x != m.prev {
		return mc.Read8(m.inner, a)
	}
	r := mc.Read8(m.prev, a)
	for i := len(stores) - 1; i >= 0; i-- {
		s := stores[i]
		eq := tb.Eq(a, s.addr)
		if !eq.IsTrue() && !eq.IsFalse() {
			if off := tb.Sub(s.addr, mc.relLo); off.IsConst() {
				eq = tb.Eq(mc.relD, off)
			}
		}
		switch {
		case eq.IsTrue():
			r = s.val
		case eq.IsFalse():
		default:
			r = tb.Ite(eq, s.val, r)
		}
	}
	return r
}

// ReadLE reads a w-bit little-endian value. Where the memory is an update of
// an older memory by a region operation, the read is lifted to word level:
// if the word does not overlap the updated region it is the word of the older
// memory, so that values read before and after an unrelated update are the
// same term under a single (linear) range condition.
func (mc *MemCtx) ReadLE(m *Mem, a *Term, w int) *Term {
	if w == 8 {
		return mc.Read8(m, a)
	}
	if mc.wcache == nil {
		mc.wcache = map[[3]int]*Term{}
	}
	key := [3]int{m.id, a.id, w}
	if !a.bound {
		if t, ok := mc.wcache[key]; ok {
			return t
		}
	}
	r := mc.readLE(m, a, w)
	if !a.bound {
		mc.wcache[key] = r
	}
	return r
}

func (mc *MemCtx) bytewise(m *Mem, a *Term, w int) *Term {
	tb := mc.tb
	var r *Term
	for i := 0; i < w/8; i++ {
		by := mc.Read8(m, tb.Add(a, tb.ConstU(uint64(i), 64)))
		if r == nil {
			r = by
		} else {
			r = tb.Concat(by, r)
		}
	}
	return r
}

func (mc *MemCtx) readLE(m *Mem, a *Term, w int) *Term {
	tb := mc.tb
	if mc.noWordLift || a.bound {
		return mc.bytewise(m, a, w)
	}
	if c, ax, ay, ok := mc.splitIteAddr(a); ok {
		// word-level lifting of an if-then-else address
		mc.liftDepth++
		r := tb.Ite(c, mc.ReadLE(m, ax, w), mc.ReadLE(m, ay, w))
		mc.liftDepth--
		return r
	}
	nb := uint64(w / 8)
	lift := func(ov *Term) *Term {
		switch {
		case ov.IsFalse():
			return mc.ReadLE(m.prev, a, w)
		case ov.IsTrue():
			return mc.bytewise(m, a, w)
		}
		bw := mc.bytewise(m, a, w)
		old := mc.ReadLE(m.prev, a, w)
		if bw == old {
			return old
		}
		return tb.Ite(ov, bw, old)
	}
	switch m.kind {
	case mStore:
		// the stored byte lies in [a, a+nb)
		return lift(tb.Ult(tb.Sub(m.addr, a), tb.ConstU(nb, 64)))
	case mHavoc, mZero, mRegion, mCopy:
		if m.n == nil {
			return mc.bytewise(m, a, w)
		}
		// [a, a+nb) overlaps [lo, lo+n)  <=>  a - lo + nb - 1 < n + nb - 1 (no wrap-around of regions)
		ov := tb.Ult(tb.Add(tb.Sub(a, m.addr), tb.ConstU(nb-1, 64)), tb.Add(m.n, tb.ConstU(nb-1, 64)))
		if !m.n.IsConst() {
			ov = tb.Or(ov, tb.Ult(tb.ConstU(1<<62, 64), m.n)) // absurd lengths: no lifting
		}
		return lift(ov)
	case mMerge:
		r := mc.ReadLE(m.mems[len(m.mems)-1], a, w)
		for i := len(m.mems) - 2; i >= 0; i-- {
			r = tb.Ite(m.conds[i], mc.ReadLE(m.mems[i], a, w), r)
		}
		return r
	}
	return mc.bytewise(m, a, w)
}

// iteLeaves counts the leaves of an ite tree (1 for a non-ite term).
func iteLeaves(t *Term, budget int) int {
	if t.op != "ite" || budget <= 0 {
		return 1
	}
	l := iteLeaves(t.args[1], budget-1)
	return l + iteLeaves(t.args[2], budget-l)
}

// splitIteAddr finds an ite-valued atom in the linear form of address a and
// returns the condition and the two addresses obtained by choosing a branch.
func (mc *MemCtx) splitIteAddr(a *Term) (*Term, *Term, *Term, bool) {
	tb := mc.tb
	l := tb.toLin(a)
	for i, at := range l.atoms {
		if at.op != "ite" {
			continue
		}
		if iteLeaves(at, 20) > 12 {
			continue
		}
		if mc.liftDepth > 3 {
			continue
		}
		rest := lin{w: l.w, c: l.c}
		rest.atoms = append(append([]*Term{}, l.atoms[:i]...), l.atoms[i+1:]...)
		rest.coef = append(append([]*big.Int{}, l.coef[:i]...), l.coef[i+1:]...)
		base := tb.fromLin(rest)
		k := tb.Const(l.coef[i], l.w)
		x := tb.Add(base, tb.Mul(at.args[1], k))
		y := tb.Add(base, tb.Mul(at.args[2], k))
		return at.args[0], x, y, true
	}
	return nil, nil, nil, false
}

// expandSmall: an address containing a term hinted to range over a few values
// is read by cases; the final alternative keeps the symbolic read, so the
// expansion is sound whatever the hint.
func (mc *MemCtx) expandSmall(m *Mem, a *Term) (*Term, bool) {
	tb := mc.tb
	l := tb.toLin(a)
	for i, at := range l.atoms {
		rng, ok := mc.small[at]
		if !ok {
			continue
		}
		rest := lin{w: l.w, c: l.c}
		rest.atoms = append(append([]*Term{}, l.atoms[:i]...), l.atoms[i+1:]...)
		rest.coef = append(append([]*big.Int{}, l.coef[:i]...), l.coef[i+1:]...)
		base := tb.fromLin(rest)
		k := tb.Const(l.coef[i], l.w)
		// fallback: the symbolic read, with this hint disabled
		delete(mc.small, at)
		mc.liftDepth++
		r := mc.Read8(m, a)
		for v := rng[1]; v >= rng[0]; v-- {
			c := tb.ConstI(v, l.w)
			r = tb.Ite(tb.Eq(at, c), mc.Read8(m, tb.Add(base, tb.Mul(c, k))), r)
		}
		mc.liftDepth--
		mc.small[at] = rng
		return r, true
	}
	return nil, false
}
