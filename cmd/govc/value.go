package main

// Symbolic Go values and their memory layout (gc / amd64).

import (
	"fmt"
	"go/types"
)

var sizes = types.SizesFor("gc", "amd64")

type Val interface{}

type Scalar struct{ T *Term } // Bool-sorted for Go bools, BV otherwise
type SliceV struct{ Ptr, Len, Cap *Term }
type StringV struct{ Ptr, Len *Term }
type IfaceV struct{ Typ, Data *Term }
type TupleV struct{ Elems []Val }
type StructV struct{ Fields []Val }
type ArrayV struct{ Elems []Val }
type FuncV struct { // a function value: static target and/or opaque handle
	Handle *Term
	Fn     interface{} // *ssa.Function when statically known
	Free   []Val       // closure bindings
}

func isSigned(t types.Type) bool {
	if b, ok := t.Underlying().(*types.Basic); ok {
		return b.Info()&types.IsInteger != 0 && b.Info()&types.IsUnsigned == 0
	}
	return false
}

func bitsOf(t types.Type) int { return int(sizes.Sizeof(t)) * 8 }

type valueMaker struct {
	tb *TB
}

// freshVal creates an unconstrained symbolic value of Go type t; type
// invariants are appended to *inv.
func (e *Engine) freshVal(hint string, t types.Type, inv *[]*Term) Val {
	tb := e.tb
	switch u := t.Underlying().(type) {
	case *types.Basic:
		switch {
		case u.Kind() == types.Bool || u.Kind() == types.UntypedBool:
			return Scalar{tb.Fresh(hint, BoolSort)}
		case u.Kind() == types.String:
			s := StringV{tb.Fresh(hint+".ptr", BV(64)), tb.Fresh(hint+".len", BV(64))}
			if inv != nil {
				*inv = append(*inv, e.stringInv(s)...)
			}
			return s
		case u.Kind() == types.UnsafePointer:
			p := tb.Fresh(hint, BV(64))
			if inv != nil {
				*inv = append(*inv, tb.Ult(p, tb.ConstU(e.valLimit()-(1<<32), 64)))
			}
			return Scalar{p}
		case u.Info()&(types.IsInteger|types.IsFloat) != 0:
			return Scalar{tb.Fresh(hint, BV(bitsOf(t)))}
		case u.Kind() == types.UntypedNil:
			return Scalar{tb.ConstU(0, 64)}
		}
	case *types.Pointer, *types.Map, *types.Chan, *types.Signature:
		p := tb.Fresh(hint, BV(64))
		if _, isPtr := u.(*types.Pointer); isPtr && inv != nil {
			*inv = append(*inv, tb.Ult(p, tb.ConstU(e.valLimit()-(1<<32), 64)))
		}
		if _, isSig := u.(*types.Signature); isSig {
			return FuncV{Handle: p}
		}
		return Scalar{p}
	case *types.Slice:
		s := SliceV{tb.Fresh(hint+".ptr", BV(64)), tb.Fresh(hint+".len", BV(64)), tb.Fresh(hint+".cap", BV(64))}
		if inv != nil {
			*inv = append(*inv, e.sliceInv(s, sizes.Sizeof(u.Elem()))...)
		}
		return s
	case *types.Interface:
		return IfaceV{tb.Fresh(hint+".typ", BV(64)), tb.Fresh(hint+".data", BV(64))}
	case *types.Struct:
		fs := make([]Val, u.NumFields())
		for i := range fs {
			fs[i] = e.freshVal(hint+"."+u.Field(i).Name(), u.Field(i).Type(), inv)
		}
		return StructV{fs}
	case *types.Array:
		if u.Len() > 64 {
			panic(fmt.Sprintf("freshVal: array too large (%d)", u.Len()))
		}
		es := make([]Val, u.Len())
		for i := range es {
			es[i] = e.freshVal(fmt.Sprintf("%s.%d", hint, i), u.Elem(), inv)
		}
		return ArrayV{es}
	case *types.Tuple:
		es := make([]Val, u.Len())
		for i := range es {
			es[i] = e.freshVal(fmt.Sprintf("%s.%d", hint, i), u.At(i).Type(), inv)
		}
		return TupleV{es}
	}
	panic(fmt.Sprintf("freshVal: unsupported type %s", t))
}

// Address-space split (assumption A3): everything that exists before the call
// under proof (parameters, globals, constants) lives below preLimit; memory
// allocated during the call lives in [preLimit, addrLimit). Fresh allocations
// are therefore disjoint from anything reachable from the inputs without
// enumerating it.
const addrLimit = 1 << 47
const preLimit = 1 << 46

// valLimit bounds the addresses a fresh symbolic value may hold: inputs of the
// function under proof live below preLimit; values that come into being while
// it runs (results of calls, loop-carried values at a cut loop head) may also
// point into memory allocated during the call, up to addrLimit.
func (e *Engine) valLimit() uint64 {
	if e.dynVals {
		return addrLimit
	}
	return preLimit
}

// sliceInv: 0 <= len <= cap, region [ptr, ptr+cap*esz) inside the user address
// space (no wrap-around), nil pointer implies zero capacity.
func (e *Engine) sliceInv(s SliceV, esz int64) []*Term {
	tb := e.tb
	if esz <= 0 {
		esz = 1
	}
	top := e.valLimit()
	lim := tb.ConstU(top/uint64(esz), 64)
	return []*Term{
		tb.Ule(s.Len, s.Cap),
		tb.Ule(s.Cap, lim),
		tb.Ule(s.Ptr, tb.ConstU(top, 64)),
		tb.Ule(tb.Add(s.Ptr, tb.Mul(s.Cap, tb.ConstU(uint64(esz), 64))), tb.ConstU(top, 64)),
		tb.Implies(tb.Eq(s.Ptr, tb.ConstU(0, 64)), tb.Eq(s.Cap, tb.ConstU(0, 64))),
	}
}

func (e *Engine) stringInv(s StringV) []*Term {
	tb := e.tb
	top := e.valLimit()
	return []*Term{
		tb.Ule(s.Len, tb.ConstU(top, 64)),
		tb.Ule(s.Ptr, tb.ConstU(top, 64)),
		tb.Ule(tb.Add(s.Ptr, s.Len), tb.ConstU(top, 64)),
		tb.Implies(tb.Eq(s.Ptr, tb.ConstU(0, 64)), tb.Eq(s.Len, tb.ConstU(0, 64))),
	}
}

// zeroVal is the zero value of type t.
func (e *Engine) zeroVal(t types.Type) Val {
	tb := e.tb
	z := tb.ConstU(0, 64)
	switch u := t.Underlying().(type) {
	case *types.Basic:
		switch {
		case u.Kind() == types.Bool:
			return Scalar{tb.False()}
		case u.Kind() == types.String:
			return StringV{z, z}
		case u.Kind() == types.UnsafePointer:
			return Scalar{z}
		default:
			return Scalar{tb.ConstU(0, bitsOf(t))}
		}
	case *types.Pointer, *types.Map, *types.Chan:
		return Scalar{z}
	case *types.Signature:
		return FuncV{Handle: z}
	case *types.Slice:
		return SliceV{z, z, z}
	case *types.Interface:
		return IfaceV{z, z}
	case *types.Struct:
		fs := make([]Val, u.NumFields())
		for i := range fs {
			fs[i] = e.zeroVal(u.Field(i).Type())
		}
		return StructV{fs}
	case *types.Array:
		if u.Len() > 64 {
			panic("zeroVal: array too large")
		}
		es := make([]Val, u.Len())
		for i := range es {
			es[i] = e.zeroVal(u.Elem())
		}
		return ArrayV{es}
	}
	panic(fmt.Sprintf("zeroVal: unsupported type %s", t))
}

func structOffsets(st *types.Struct) []int64 {
	fs := make([]*types.Var, st.NumFields())
	for i := range fs {
		fs[i] = st.Field(i)
	}
	return sizes.Offsetsof(fs)
}

// load reads a value of type t from memory at addr.
func (e *Engine) load(m *Mem, addr *Term, t types.Type) Val {
	tb, mc := e.tb, e.mc
	off := func(k int64) *Term { return tb.Add(addr, tb.ConstU(uint64(k), 64)) }
	switch u := t.Underlying().(type) {
	case *types.Basic:
		switch {
		case u.Kind() == types.Bool:
			return Scalar{tb.Ne(mc.Read8(m, addr), tb.ConstU(0, 8))}
		case u.Kind() == types.String:
			return StringV{mc.ReadLE(m, addr, 64), mc.ReadLE(m, off(8), 64)}
		default:
			return Scalar{mc.ReadLE(m, addr, bitsOf(t))}
		}
	case *types.Pointer, *types.Map, *types.Chan:
		return Scalar{mc.ReadLE(m, addr, 64)}
	case *types.Signature:
		return FuncV{Handle: mc.ReadLE(m, addr, 64)}
	case *types.Slice:
		return SliceV{mc.ReadLE(m, addr, 64), mc.ReadLE(m, off(8), 64), mc.ReadLE(m, off(16), 64)}
	case *types.Interface:
		return IfaceV{mc.ReadLE(m, addr, 64), mc.ReadLE(m, off(8), 64)}
	case *types.Struct:
		offs := structOffsets(u)
		fs := make([]Val, u.NumFields())
		for i := range fs {
			fs[i] = e.load(m, off(offs[i]), u.Field(i).Type())
		}
		return StructV{fs}
	case *types.Array:
		if u.Len() > 64 {
			panic(fmt.Sprintf("load: array too large (%d)", u.Len()))
		}
		esz := sizes.Sizeof(u.Elem())
		es := make([]Val, u.Len())
		for i := range es {
			es[i] = e.load(m, off(int64(i)*esz), u.Elem())
		}
		return ArrayV{es}
	}
	panic(fmt.Sprintf("load: unsupported type %s", t))
}

// store writes v of type t at addr.
func (e *Engine) store(m *Mem, addr *Term, t types.Type, v Val) *Mem {
	tb, mc := e.tb, e.mc
	off := func(k int64) *Term { return tb.Add(addr, tb.ConstU(uint64(k), 64)) }
	switch x := v.(type) {
	case Scalar:
		if x.T.sort.K == SBool {
			return mc.Store8(m, addr, tb.Ite(x.T, tb.ConstU(1, 8), tb.ConstU(0, 8)))
		}
		return mc.StoreLE(m, addr, x.T)
	case FuncV:
		return mc.StoreLE(m, addr, e.funcHandle(x))
	case StringV:
		m = mc.StoreLE(m, addr, x.Ptr)
		return mc.StoreLE(m, off(8), x.Len)
	case SliceV:
		m = mc.StoreLE(m, addr, x.Ptr)
		m = mc.StoreLE(m, off(8), x.Len)
		return mc.StoreLE(m, off(16), x.Cap)
	case IfaceV:
		m = mc.StoreLE(m, addr, x.Typ)
		return mc.StoreLE(m, off(8), x.Data)
	case StructV:
		st := t.Underlying().(*types.Struct)
		offs := structOffsets(st)
		for i, f := range x.Fields {
			m = e.store(m, off(offs[i]), st.Field(i).Type(), f)
		}
		return m
	case ArrayV:
		at := t.Underlying().(*types.Array)
		esz := sizes.Sizeof(at.Elem())
		for i, el := range x.Elems {
			m = e.store(m, off(int64(i)*esz), at.Elem(), el)
		}
		return m
	}
	panic(fmt.Sprintf("store: unsupported value %T", v))
}

func (e *Engine) funcHandle(f FuncV) *Term {
	if f.Handle != nil {
		return f.Handle
	}
	return e.tb.Fresh("fn", BV(64))
}

// mergeVal builds ite(c, a, b) componentwise.
func (e *Engine) mergeVal(c *Term, a, b Val) Val {
	tb := e.tb
	switch x := a.(type) {
	case Scalar:
		y, ok := b.(Scalar)
		if !ok || x.T.sort != y.T.sort {
			return a // ill-typed merge cannot be used
		}
		return Scalar{tb.Ite(c, x.T, y.T)}
	case SliceV:
		y := b.(SliceV)
		return SliceV{tb.Ite(c, x.Ptr, y.Ptr), tb.Ite(c, x.Len, y.Len), tb.Ite(c, x.Cap, y.Cap)}
	case StringV:
		y := b.(StringV)
		return StringV{tb.Ite(c, x.Ptr, y.Ptr), tb.Ite(c, x.Len, y.Len)}
	case IfaceV:
		y := b.(IfaceV)
		return IfaceV{tb.Ite(c, x.Typ, y.Typ), tb.Ite(c, x.Data, y.Data)}
	case TupleV:
		y := b.(TupleV)
		r := make([]Val, len(x.Elems))
		for i := range r {
			r[i] = e.mergeVal(c, x.Elems[i], y.Elems[i])
		}
		return TupleV{r}
	case StructV:
		y := b.(StructV)
		r := make([]Val, len(x.Fields))
		for i := range r {
			r[i] = e.mergeVal(c, x.Fields[i], y.Fields[i])
		}
		return StructV{r}
	case ArrayV:
		y := b.(ArrayV)
		r := make([]Val, len(x.Elems))
		for i := range r {
			r[i] = e.mergeVal(c, x.Elems[i], y.Elems[i])
		}
		return ArrayV{r}
	case FuncV:
		y := b.(FuncV)
		if x.Fn == y.Fn && x.Fn != nil {
			return x
		}
		return FuncV{Handle: tb.Ite(c, e.funcHandle(x), e.funcHandle(y))}
	case FieldRefV:
		return a
	}
	return a
}

func sameVal(a, b Val) bool {
	switch x := a.(type) {
	case Scalar:
		y, ok := b.(Scalar)
		return ok && x.T == y.T
	case SliceV:
		y, ok := b.(SliceV)
		return ok && x == y
	case StringV:
		y, ok := b.(StringV)
		return ok && x == y
	case IfaceV:
		y, ok := b.(IfaceV)
		return ok && x == y
	case TupleV:
		y, ok := b.(TupleV)
		if !ok || len(x.Elems) != len(y.Elems) {
			return false
		}
		for i := range x.Elems {
			if !sameVal(x.Elems[i], y.Elems[i]) {
				return false
			}
		}
		return true
	case StructV:
		y, ok := b.(StructV)
		if !ok || len(x.Fields) != len(y.Fields) {
			return false
		}
		for i := range x.Fields {
			if !sameVal(x.Fields[i], y.Fields[i]) {
				return false
			}
		}
		return true
	case ArrayV:
		y, ok := b.(ArrayV)
		if !ok || len(x.Elems) != len(y.Elems) {
			return false
		}
		for i := range x.Elems {
			if !sameVal(x.Elems[i], y.Elems[i]) {
				return false
			}
		}
		return true
	case FuncV:
		y, ok := b.(FuncV)
		return ok && x.Fn == y.Fn && x.Handle == y.Handle && len(x.Free) == 0 && len(y.Free) == 0
	}
	return false
}

// valEq is Go's == on two values of the same comparable type.
func (e *Engine) valEq(a, b Val, m *Mem) *Term {
	tb := e.tb
	switch x := a.(type) {
	case Scalar:
		return tb.Eq(x.T, b.(Scalar).T)
	case IfaceV:
		// interface equality: same dynamic type and (nil or same data word).
		// A nil interface is one whose type word is zero.
		y := b.(IfaceV)
		return tb.And(tb.Eq(x.Typ, y.Typ), tb.Or(tb.Eq(x.Typ, tb.ConstU(0, 64)), tb.Eq(x.Data, y.Data)))
	case StructV:
		y := b.(StructV)
		var cs []*Term
		for i := range x.Fields {
			cs = append(cs, e.valEq(x.Fields[i], y.Fields[i], m))
		}
		return tb.And(cs...)
	case ArrayV:
		y := b.(ArrayV)
		var cs []*Term
		for i := range x.Elems {
			cs = append(cs, e.valEq(x.Elems[i], y.Elems[i], m))
		}
		return tb.And(cs...)
	case SliceV: // only comparison with nil is legal
		y := b.(SliceV)
		return tb.Eq(x.Ptr, y.Ptr)
	case FuncV:
		y := b.(FuncV)
		return tb.Eq(e.funcHandle(x), e.funcHandle(y))
	}
	panic(fmt.Sprintf("valEq: unsupported %T", a))
}
