package main

// Evaluation of contract expressions (Go expression syntax plus implies/iff/
// forall/exists/old/ite and spec functions) into SMT terms.

import (
	"go/printer"
	"fmt"
	"sort"
	"go/ast"
	"go/constant"
	"go/token"
	"go/types"
	"math/big"
	"strconv"
	"strings"

	"golang.org/x/tools/go/ssa"
)

type svKind int

const (
	kBool svKind = iota
	kInt
	kUntyped
	kVal
)

type SV struct {
	weak   bool // typed only by default (came from untyped constants): adapts to the other operand
	k      svKind
	t      *Term
	signed bool
	c      *big.Int
	v      Val
	gt     types.Type // Go type when known
}

type Scope struct {
	e            *Engine
	vars         map[string]SV
	parent       *Scope
	mem          *Mem
	oldMem       *Mem
	loopEntryMem *Mem
	loopEntryGh  *Ghost
	addrOfLocal  func(name string) (*Term, *Term, bool) // region of an address-taken local variable
	gh           *Ghost
	oldGh        *Ghost
	golookup     func(name string) (SV, bool)
	goal         bool
	pkg          *types.Package
	what         string
	depth        int
	qdepth       int
	paramsFirst  bool
	instTerms    []*Term // extra instantiation points for quantified hypotheses (loop variables in scope)
	extraInst    []*Term // instantiation points chosen at discharge time (goal-directed)
	nextLookup   func(name string) (SV, bool)
	qrec         *qRecorder
}

// qRecorder notes, while a hypothesis is evaluated, which sequences are
// indexed by a quantified variable (their base pointers).
type qRecorder struct {
	bases []*Term
	quant bool
}

type specError struct{ msg string }

func (s *Scope) fail(format string, a ...interface{}) {
	panic(specError{fmt.Sprintf(format, a...) + " in: " + s.what})
}

func (s *Scope) child() *Scope {
	c := *s
	c.vars = map[string]SV{}
	c.parent = s
	return &c
}

func (s *Scope) lookup(name string) (SV, bool) {
	for c := s; c != nil; c = c.parent {
		if v, ok := c.vars[name]; ok {
			return v, true
		}
	}
	if s.golookup != nil {
		if v, ok := s.golookup(name); ok {
			return v, true
		}
	}
	return SV{}, false
}

func (e *Engine) svOf(v Val, t types.Type) SV {
	switch x := v.(type) {
	case Scalar:
		if x.T.sort.K == SBool {
			return SV{k: kBool, t: x.T, gt: t}
		}
		return SV{k: kInt, t: x.T, signed: t != nil && isSigned(t), gt: t}
	}
	return SV{k: kVal, v: v, gt: t}
}

// ghost state addresses
const (
	ghostOUT    = uint64(1) << 62
	ghostOUTLEN = ghostOUT - 64
	ghostIN     = uint64(1) << 61
	ghostINPOS  = ghostIN - 64
	ghostINLEN  = ghostIN - 32
)

var ghostConsts = map[string]uint64{"OUT": ghostOUT, "OUTLEN": ghostOUTLEN, "IN": ghostIN, "INPOS": ghostINPOS, "INLEN": ghostINLEN}

var specTypes = map[string]struct {
	w      int
	signed bool
}{
	"u8": {8, false}, "u16": {16, false}, "u32": {32, false}, "u64": {64, false}, "u128": {128, false},
	"i8": {8, true}, "i16": {16, true}, "i32": {32, true}, "i64": {64, true}, "i128": {128, true},
	"int": {64, true}, "uint": {64, false}, "byte": {8, false}, "uintptr": {64, false},
	"uint8": {8, false}, "uint16": {16, false}, "uint32": {32, false}, "uint64": {64, false},
	"int8": {8, true}, "int16": {16, true}, "int32": {32, true}, "int64": {64, true}, "rune": {32, true},
	"u256": {256, false},
}

func (e *Engine) evalBool(sc *Scope, ex ast.Expr, what string) (r *Term) {
	sc.what = what
	v := sc.eval(ex)
	if v.k != kBool {
		sc.fail("expected a boolean")
	}
	return v.t
}

func (e *Engine) evalInt(sc *Scope, ex ast.Expr, what string) *Term {
	sc.what = what
	v := sc.eval(ex)
	if v.k == kUntyped {
		return e.tb.Const(v.c, 64)
	}
	if v.k != kInt {
		sc.fail("expected an integer")
	}
	return v.t
}

// designator: what a modifies clause names. ghost == "" is real memory
// [lo, lo+n); otherwise a ghost scalar (lo == nil) or a ghost stream range.
type designator struct {
	ghost string
	lo, n *Term
}

func (e *Engine) evalDesignator(sc *Scope, ex ast.Expr, what string) designator {
	sc.what = what
	switch x := ex.(type) {
	case *ast.Ident:
		switch x.Name {
		case "OUTLEN":
			return designator{ghost: "outlen"}
		case "INPOS":
			return designator{ghost: "inpos"}
		case "INLEN":
			return designator{ghost: "inlen"}
		case "TICKS":
			return designator{ghost: "ticks"}
		}
	case *ast.CallExpr:
		if id, ok := x.Fun.(*ast.Ident); ok && (id.Name == "outreg" || id.Name == "inreg") && len(x.Args) == 2 {
			lo := sc.toInt(sc.eval(x.Args[0]), 64, false)
			n := sc.toInt(sc.eval(x.Args[1]), 64, false)
			return designator{ghost: id.Name[:len(id.Name)-3], lo: lo, n: n}
		}
	}
	if id, ok := ex.(*ast.Ident); ok && sc.addrOfLocal != nil {
		if lo, n, ok := sc.addrOfLocal(id.Name); ok {
			return designator{lo: lo, n: n}
		}
	}
	lo, n := e.evalRegion(sc, ex, what)
	return designator{lo: lo, n: n}
}

// evalRegion evaluates a modifies designator to (start address, byte length).
func (e *Engine) evalRegion(sc *Scope, ex ast.Expr, what string) (*Term, *Term) {
	sc.what = what
	tb := e.tb
	if id, ok := ex.(*ast.Ident); ok && sc.addrOfLocal != nil {
		if lo, n, ok := sc.addrOfLocal(id.Name); ok {
			return lo, n
		}
	}
	var fieldLo, fieldN *Term
	switch x := ex.(type) {
	case *ast.StarExpr:
		p := sc.eval(x.X)
		if p.k != kInt || p.gt == nil {
			sc.fail("modifies *p needs a typed pointer")
		}
		pt, ok := p.gt.Underlying().(*types.Pointer)
		if !ok {
			sc.fail("modifies *p: not a pointer")
		}
		return p.t, tb.ConstU(uint64(sizes.Sizeof(pt.Elem())), 64)
	case *ast.CallExpr:
		if id, ok := x.Fun.(*ast.Ident); ok && id.Name == "mem" && len(x.Args) == 2 {
			p := sc.toInt(sc.eval(x.Args[0]), 64, false)
			n := sc.toInt(sc.eval(x.Args[1]), 64, false)
			return p, n
		}
	}
	if _, ok := ex.(*ast.SelectorExpr); ok {
		// region of a (possibly nested) struct field reached through a typed pointer
		if addr, t, ok := sc.lvalue(ex); ok {
			switch t.Underlying().(type) {
			case *types.Slice:
			default:
				if b, isB := t.Underlying().(*types.Basic); !isB || b.Kind() != types.String {
					fieldLo, fieldN = addr, tb.ConstU(uint64(sizes.Sizeof(t)), 64)
					return fieldLo, fieldN
				}
			}
		}
	}
	v := sc.eval(ex)
	if v.k == kVal {
		switch s := v.v.(type) {
		case SliceV:
			esz := int64(1)
			if v.gt != nil {
				if st, ok := v.gt.Underlying().(*types.Slice); ok {
					esz = sizes.Sizeof(st.Elem())
				}
			}
			return s.Ptr, tb.Mul(s.Len, tb.ConstU(uint64(esz), 64))
		case StringV:
			return s.Ptr, s.Len
		}
	}
	sc.fail("bad region designator")
	return nil, nil
}

// lvalue evaluates p.f.g... to the address and type of the designated field,
// where p is a typed pointer to a struct.
func (s *Scope) lvalue(ex ast.Expr) (addr *Term, t types.Type, ok bool) {
	defer func() {
		if r := recover(); r != nil {
			if _, isSpec := r.(specError); isSpec {
				ok = false
				return
			}
			panic(r)
		}
	}()
	tb := s.e.tb
	sel, isSel := ex.(*ast.SelectorExpr)
	if !isSel {
		return nil, nil, false
	}
	var baseAddr *Term
	var st *types.Struct
	if a, bt, ok := s.lvalue(sel.X); ok {
		if x, ok := bt.Underlying().(*types.Struct); ok {
			baseAddr, st = a, x
		}
	}
	if st == nil {
		base := s.eval(sel.X)
		if base.k != kInt || base.gt == nil {
			return nil, nil, false
		}
		pt, ok := base.gt.Underlying().(*types.Pointer)
		if !ok {
			return nil, nil, false
		}
		x, ok := pt.Elem().Underlying().(*types.Struct)
		if !ok {
			return nil, nil, false
		}
		baseAddr, st = base.t, x
	}
	offs := structOffsets(st)
	for i := 0; i < st.NumFields(); i++ {
		if st.Field(i).Name() == sel.Sel.Name {
			return tb.Add(baseAddr, tb.ConstU(uint64(offs[i]), 64)), st.Field(i).Type(), true
		}
	}
	return nil, nil, false
}

func (s *Scope) toInt(v SV, w int, signed bool) *Term {
	tb := s.e.tb
	switch v.k {
	case kUntyped:
		return tb.Const(v.c, w)
	case kInt:
		if v.t.sort.W == w {
			return v.t
		}
		if v.signed {
			return tb.SExt(v.t, w)
		}
		return tb.ZExt(v.t, w)
	}
	s.fail("expected integer operand")
	return nil
}

// unify brings two integer operands to a common type.
func (s *Scope) unify(a, b SV) (SV, SV) {
	tb := s.e.tb
	if a.k == kUntyped && b.k == kUntyped {
		return a, b
	}
	if a.k == kUntyped {
		if b.k != kInt {
			s.fail("integer constant combined with non-integer")
		}
		return SV{k: kInt, t: tb.Const(a.c, b.t.sort.W), signed: b.signed}, b
	}
	if b.k == kUntyped {
		if a.k != kInt {
			s.fail("integer constant combined with non-integer")
		}
		return a, SV{k: kInt, t: tb.Const(b.c, a.t.sort.W), signed: a.signed}
	}
	if a.k != kInt || b.k != kInt {
		s.fail("integer operands expected")
	}
	if a.weak && !b.weak {
		return SV{k: kInt, t: tb.SExt(a.t, b.t.sort.W), signed: b.signed}, b
	}
	if b.weak && !a.weak {
		return a, SV{k: kInt, t: tb.SExt(b.t, a.t.sort.W), signed: a.signed}
	}
	if a.t.sort.W != b.t.sort.W {
		s.fail("width mismatch (%d vs %d bits): add an explicit conversion", a.t.sort.W, b.t.sort.W)
	}
	if a.signed != b.signed {
		s.fail("signedness mismatch: add an explicit conversion")
	}
	return a, b
}

func (s *Scope) eval(ex ast.Expr) SV {
	e := s.e
	tb := e.tb
	switch x := ex.(type) {
	case *ast.ParenExpr:
		return s.eval(x.X)
	case *ast.BasicLit:
		switch x.Kind {
		case token.INT:
			v, ok := new(big.Int).SetString(strings.ReplaceAll(x.Value, "_", ""), 0)
			if !ok {
				s.fail("bad integer literal %s", x.Value)
			}
			return SV{k: kUntyped, c: v}
		case token.CHAR:
			r, _, _, err := strconv.UnquoteChar(x.Value[1:len(x.Value)-1], '\'')
			if err != nil {
				s.fail("bad char literal %s", x.Value)
			}
			return SV{k: kUntyped, c: big.NewInt(int64(r))}
		case token.STRING:
			str, err := strconv.Unquote(x.Value)
			if err != nil {
				s.fail("bad string literal")
			}
			return SV{k: kVal, v: e.stringConst(str), gt: types.Typ[types.String]}
		}
		s.fail("unsupported literal %s", x.Value)
	case *ast.Ident:
		switch x.Name {
		case "true":
			return SV{k: kBool, t: tb.True()}
		case "false":
			return SV{k: kBool, t: tb.False()}
		case "nil":
			return SV{k: kUntyped, c: new(big.Int)}
		}

		if v, ok := s.lookup(x.Name); ok {
			return v
		}
		// package-level constant of the package under verification
		if s.pkg != nil {
			if obj := s.pkg.Scope().Lookup(x.Name); obj != nil {
				if c, ok := obj.(*types.Const); ok {
					return s.constSV(c)
				}
				if gv, ok := obj.(*types.Var); ok {
					if g := e.findGlobal(gv); g != nil {
						addr := e.globalAddr(g)
						return e.svOf(e.load(s.mem, addr, gv.Type()), gv.Type())
					}
				}
			}
		}
		s.fail("unknown name %q", x.Name)
	case *ast.UnaryExpr:
		switch x.Op {
		case token.NOT:
			s.goal = !s.goal
			v := s.eval(x.X)
			s.goal = !s.goal
			if v.k != kBool {
				s.fail("! on non-boolean")
			}
			return SV{k: kBool, t: tb.Not(v.t)}
		case token.SUB:
			v := s.eval(x.X)
			if v.k == kUntyped {
				return SV{k: kUntyped, c: new(big.Int).Neg(v.c)}
			}
			return SV{k: kInt, t: tb.Neg(v.t), signed: v.signed}
		case token.XOR:
			v := s.eval(x.X)
			if v.k != kInt {
				s.fail("^ needs a typed integer")
			}
			return SV{k: kInt, t: tb.BVNot(v.t), signed: v.signed}
		case token.AND:
			s.fail("& not supported in specs")
		}
	case *ast.StarExpr:
		p := s.eval(x.X)
		if p.k != kInt || p.gt == nil {
			s.fail("dereference needs a typed pointer")
		}
		pt, ok := p.gt.Underlying().(*types.Pointer)
		if !ok {
			s.fail("dereference of non-pointer")
		}
		return e.svOf(e.load(s.mem, p.t, pt.Elem()), pt.Elem())
	case *ast.BinaryExpr:
		return s.evalBinary(x)
	case *ast.CallExpr:
		return s.evalCall(x)
	case *ast.IndexExpr:
		base := s.eval(x.X)
		idx := s.toInt(s.eval(x.Index), 64, true)
		if base.k == kVal {
			switch b := base.v.(type) {
			case SliceV:
				var et types.Type = types.Typ[types.Uint8]
				if base.gt != nil {
					if st, ok := base.gt.Underlying().(*types.Slice); ok {
						et = st.Elem()
					}
				}
				if idx.bound && s.qrec != nil {
					s.qrec.bases = append(s.qrec.bases, b.Ptr)
				}
				addr := tb.Add(b.Ptr, tb.Mul(idx, tb.ConstU(uint64(sizes.Sizeof(et)), 64)))
				return e.svOf(e.load(s.mem, addr, et), et)
			case StringV:
				if idx.bound && s.qrec != nil {
					s.qrec.bases = append(s.qrec.bases, b.Ptr)
				}
				return SV{k: kInt, t: e.mc.Read8(s.mem, tb.Add(b.Ptr, idx))}
			case ArrayV:
				if idx.IsConst() && idx.val.IsUint64() && idx.val.Uint64() < uint64(len(b.Elems)) {
					var et types.Type
					if base.gt != nil {
						et = base.gt.Underlying().(*types.Array).Elem()
					}
					return e.svOf(b.Elems[idx.val.Uint64()], et)
				}
			}
		}
		if base.k == kInt && base.gt != nil {
			if pt, ok := base.gt.Underlying().(*types.Pointer); ok {
				if at, ok := pt.Elem().Underlying().(*types.Array); ok {
					addr := tb.Add(base.t, tb.Mul(idx, tb.ConstU(uint64(sizes.Sizeof(at.Elem())), 64)))
					return e.svOf(e.load(s.mem, addr, at.Elem()), at.Elem())
				}
			}
		}
		s.fail("cannot index this value")
	case *ast.SliceExpr:
		base := s.eval(x.X)
		var lo, hi *Term
		if x.Low != nil {
			lo = s.toInt(s.eval(x.Low), 64, true)
		} else {
			lo = tb.ConstU(0, 64)
		}
		if base.k == kVal {
			switch b := base.v.(type) {
			case SliceV:
				if x.High != nil {
					hi = s.toInt(s.eval(x.High), 64, true)
				} else {
					hi = b.Len
				}
				esz := int64(1)
				if base.gt != nil {
					if st, ok := base.gt.Underlying().(*types.Slice); ok {
						esz = sizes.Sizeof(st.Elem())
					}
				}
				return SV{k: kVal, v: SliceV{tb.Add(b.Ptr, tb.Mul(lo, tb.ConstU(uint64(esz), 64))), tb.Sub(hi, lo), tb.Sub(b.Cap, lo)}, gt: base.gt}
			case StringV:
				if x.High != nil {
					hi = s.toInt(s.eval(x.High), 64, true)
				} else {
					hi = b.Len
				}
				return SV{k: kVal, v: StringV{tb.Add(b.Ptr, lo), tb.Sub(hi, lo)}, gt: base.gt}
			}
		}
		s.fail("cannot slice this value")
	case *ast.SelectorExpr:
		return s.evalSelector(x)
	}
	s.fail("unsupported expression %T", ex)
	return SV{}
}

func (s *Scope) constSV(c *types.Const) SV {
	e := s.e
	tb := e.tb
	v := c.Val()
	switch v.Kind() {
	case constant.Bool:
		return SV{k: kBool, t: tb.BoolC(constant.BoolVal(v))}
	case constant.Int:
		bi, _ := new(big.Int).SetString(v.ExactString(), 10)
		if b, ok := c.Type().Underlying().(*types.Basic); ok && b.Info()&types.IsUntyped == 0 {
			return SV{k: kInt, t: tb.Const(bi, bitsOf(c.Type())), signed: isSigned(c.Type()), gt: c.Type()}
		}
		return SV{k: kUntyped, c: bi}
	case constant.String:
		return SV{k: kVal, v: e.stringConst(constant.StringVal(v)), gt: types.Typ[types.String]}
	}
	s.fail("unsupported constant %s", c.Name())
	return SV{}
}

func (s *Scope) evalSelector(x *ast.SelectorExpr) SV {
	e := s.e
	tb := e.tb
	// package-qualified global, e.g. io.EOF
	if id, ok := x.X.(*ast.Ident); ok {
		if _, bound := s.lookup(id.Name); !bound {
			if g := e.findGlobalByName(id.Name, x.Sel.Name); g != nil {
				addr := e.globalAddr(g)
				t := g.Type().Underlying().(*types.Pointer).Elem()
				return e.svOf(e.load(s.mem, addr, t), t)
			}
			if c := e.findConstByName(id.Name, x.Sel.Name); c != nil {
				return s.constSV(c)
			}
		}
	}
	base := s.eval(x.X)
	name := x.Sel.Name
	if base.k == kVal {
		switch b := base.v.(type) {
		case SliceV:
			switch name {
			case "ptr":
				return SV{k: kInt, t: b.Ptr}
			case "len":
				return SV{k: kInt, t: b.Len, signed: true}
			case "cap":
				return SV{k: kInt, t: b.Cap, signed: true}
			}
		case StringV:
			switch name {
			case "ptr":
				return SV{k: kInt, t: b.Ptr}
			case "len":
				return SV{k: kInt, t: b.Len, signed: true}
			}
		case IfaceV:
			switch name {
			case "typ":
				return SV{k: kInt, t: b.Typ}
			case "data":
				return SV{k: kInt, t: b.Data}
			}
		case StructV:
			if base.gt != nil {
				st := base.gt.Underlying().(*types.Struct)
				for i := 0; i < st.NumFields(); i++ {
					if st.Field(i).Name() == name {
						return e.svOf(b.Fields[i], st.Field(i).Type())
					}
				}
			}
		case TupleV:
		}
	}
	if base.k == kInt && base.gt != nil {
		if pt, ok := base.gt.Underlying().(*types.Pointer); ok {
			if st, ok := pt.Elem().Underlying().(*types.Struct); ok {
				offs := structOffsets(st)
				for i := 0; i < st.NumFields(); i++ {
					if st.Field(i).Name() == name {
						addr := tb.Add(base.t, tb.ConstU(uint64(offs[i]), 64))
						return e.svOf(e.load(s.mem, addr, st.Field(i).Type()), st.Field(i).Type())
					}
				}
			}
		}
	}
	s.fail("cannot select .%s of %s (kind %d, type %v)", name, exprString(x.X), base.k, base.gt)
	return SV{}
}

func (s *Scope) evalBinary(x *ast.BinaryExpr) SV {
	e := s.e
	tb := e.tb
	switch x.Op {
	case token.LAND, token.LOR:
		a := s.eval(x.X)
		b := s.eval(x.Y)
		if a.k != kBool || b.k != kBool {
			s.fail("%s on non-boolean", x.Op)
		}
		if x.Op == token.LAND {
			return SV{k: kBool, t: tb.And(a.t, b.t)}
		}
		return SV{k: kBool, t: tb.Or(a.t, b.t)}
	}
	a := s.eval(x.X)
	b := s.eval(x.Y)
	if x.Op == token.EQL || x.Op == token.NEQ {
		var r *Term
		switch {
		case a.k == kBool && b.k == kBool:
			r = tb.Eq(a.t, b.t)
		case a.k == kVal || b.k == kVal:
			r = s.valEqSpec(a, b)
		default:
			a, b = s.unifyLoose(a, b)
			if a.k == kUntyped {
				r = tb.BoolC(a.c.Cmp(b.c) == 0)
			} else {
				r = tb.Eq(a.t, b.t)
			}
		}
		if x.Op == token.NEQ {
			r = tb.Not(r)
		}
		return SV{k: kBool, t: r}
	}
	if x.Op == token.SHL || x.Op == token.SHR {
		if a.k == kUntyped && b.k == kUntyped {
			if x.Op == token.SHL {
				return SV{k: kUntyped, c: new(big.Int).Lsh(a.c, uint(b.c.Uint64()))}
			}
			return SV{k: kUntyped, c: new(big.Int).Rsh(a.c, uint(b.c.Uint64()))}
		}
		if a.k == kUntyped {
			s.fail("shift of an untyped constant by a variable: convert the left operand")
		}
		var cnt *Term
		if b.k == kUntyped {
			cnt = tb.Const(b.c, a.t.sort.W)
		} else {
			cnt = b.t
		}
		return SV{k: kInt, t: e.shift(x.Op == token.SHL, a.signed, a.t, cnt), signed: a.signed, gt: nil}
	}
	a, b = s.unify(a, b)
	if a.k == kUntyped {
		var r *big.Int
		switch x.Op {
		case token.ADD:
			r = new(big.Int).Add(a.c, b.c)
		case token.SUB:
			r = new(big.Int).Sub(a.c, b.c)
		case token.MUL:
			r = new(big.Int).Mul(a.c, b.c)
		case token.QUO:
			r = new(big.Int).Quo(a.c, b.c)
		case token.REM:
			r = new(big.Int).Rem(a.c, b.c)
		case token.AND:
			r = new(big.Int).And(a.c, b.c)
		case token.OR:
			r = new(big.Int).Or(a.c, b.c)
		case token.XOR:
			r = new(big.Int).Xor(a.c, b.c)
		case token.LSS:
			return SV{k: kBool, t: tb.BoolC(a.c.Cmp(b.c) < 0)}
		case token.LEQ:
			return SV{k: kBool, t: tb.BoolC(a.c.Cmp(b.c) <= 0)}
		case token.GTR:
			return SV{k: kBool, t: tb.BoolC(a.c.Cmp(b.c) > 0)}
		case token.GEQ:
			return SV{k: kBool, t: tb.BoolC(a.c.Cmp(b.c) >= 0)}
		default:
			s.fail("unsupported constant operator %s", x.Op)
		}
		return SV{k: kUntyped, c: r}
	}
	sg := a.signed
	switch x.Op {
	case token.ADD:
		return SV{k: kInt, t: tb.Add(a.t, b.t), signed: sg}
	case token.SUB:
		return SV{k: kInt, t: tb.Sub(a.t, b.t), signed: sg}
	case token.MUL:
		return SV{k: kInt, t: tb.Mul(a.t, b.t), signed: sg}
	case token.QUO:
		if sg {
			return SV{k: kInt, t: tb.Bin("bvsdiv", a.t, b.t), signed: sg}
		}
		return SV{k: kInt, t: tb.Bin("bvudiv", a.t, b.t), signed: sg}
	case token.REM:
		if sg {
			return SV{k: kInt, t: tb.Bin("bvsrem", a.t, b.t), signed: sg}
		}
		return SV{k: kInt, t: tb.Bin("bvurem", a.t, b.t), signed: sg}
	case token.AND:
		return SV{k: kInt, t: tb.Bin("bvand", a.t, b.t), signed: sg}
	case token.OR:
		return SV{k: kInt, t: tb.Bin("bvor", a.t, b.t), signed: sg}
	case token.XOR:
		return SV{k: kInt, t: tb.Bin("bvxor", a.t, b.t), signed: sg}
	case token.AND_NOT:
		return SV{k: kInt, t: tb.Bin("bvand", a.t, tb.BVNot(b.t)), signed: sg}
	case token.LSS, token.LEQ, token.GTR, token.GEQ:
		return SV{k: kBool, t: e.cmp(x.Op, sg, a.t, b.t)}
	}
	s.fail("unsupported operator %s", x.Op)
	return SV{}
}

// unifyLoose is unify for ==/!=, where signedness does not matter.
func (s *Scope) unifyLoose(a, b SV) (SV, SV) {
	if a.k == kInt && b.k == kInt && a.t.sort.W == b.t.sort.W {
		return a, b
	}
	return s.unify(a, b)
}

func (s *Scope) valEqSpec(a, b SV) *Term {
	e := s.e
	tb := e.tb
	isNil := func(v SV) bool { return v.k == kUntyped && v.c.Sign() == 0 }
	if isNil(a) {
		a, b = b, a
	}
	if isNil(b) {
		switch x := a.v.(type) {
		case SliceV:
			return tb.Eq(x.Ptr, tb.ConstU(0, 64))
		case IfaceV:
			return tb.Eq(x.Typ, tb.ConstU(0, 64))
		case FuncV:
			return tb.Eq(e.funcHandle(x), tb.ConstU(0, 64))
		}
		s.fail("comparison with nil")
	}
	if a.k != kVal || b.k != kVal {
		s.fail("cannot compare these values")
	}
	switch x := a.v.(type) {
	case IfaceV:
		return e.valEq(x, b.v, s.mem)
	case SliceV: // same slice header
		y := b.v.(SliceV)
		return tb.And(tb.Eq(x.Ptr, y.Ptr), tb.Eq(x.Len, y.Len), tb.Eq(x.Cap, y.Cap))
	case StringV: // same header (content equality is seq_eq)
		y := b.v.(StringV)
		return tb.And(tb.Eq(x.Ptr, y.Ptr), tb.Eq(x.Len, y.Len))
	case StructV, ArrayV:
		return e.valEq(x, b.v, s.mem)
	}
	s.fail("cannot compare these values")
	return nil
}

func (s *Scope) evalCall(x *ast.CallExpr) SV {
	e := s.e
	tb := e.tb
	id, ok := x.Fun.(*ast.Ident)
	if !ok {
		s.fail("unsupported call target")
	}
	name := id.Name
	args := x.Args
	need := func(n int) {
		if len(args) != n {
			s.fail("%s expects %d arguments", name, n)
		}
	}
	switch name {
	case "implies":
		need(2)
		s.goal = !s.goal
		a := s.eval(args[0])
		s.goal = !s.goal
		b := s.eval(args[1])
		if a.k != kBool || b.k != kBool {
			s.fail("==> on non-boolean")
		}
		return SV{k: kBool, t: tb.Implies(a.t, b.t)}
	case "iff":
		need(2)
		// evaluate each side in both polarities so that quantifiers are
		// Skolemised/kept correctly
		g := s.goal
		s.goal = !g
		a1 := s.eval(args[0])
		s.goal = g
		b1 := s.eval(args[1])
		s.goal = !g
		b2 := s.eval(args[1])
		s.goal = g
		a2 := s.eval(args[0])
		if a1.k != kBool || b1.k != kBool {
			s.fail("<==> on non-boolean")
		}
		return SV{k: kBool, t: tb.And(tb.Implies(a1.t, b1.t), tb.Implies(b2.t, a2.t))}
	case "ite":
		need(3)
		g := s.goal
		c := s.eval(args[0])
		if c.k != kBool {
			s.fail("ite condition not boolean")
		}
		a := s.eval(args[1])
		b := s.eval(args[2])
		if a.k == kBool && b.k == kBool {
			// (c => a) && (!c => b) with correct polarities
			s.goal = !g
			c2 := s.eval(args[0])
			s.goal = g
			_ = c2
			return SV{k: kBool, t: tb.Ite(c.t, a.t, b.t)}
		}
		if a.k == kVal || b.k == kVal {
			return SV{k: kVal, v: e.mergeVal(c.t, a.v, b.v), gt: a.gt}
		}
		a, b = s.unify(a, b)
		if a.k == kUntyped {
			a = SV{k: kInt, t: tb.Const(a.c, 64), signed: true, weak: true}
			b = SV{k: kInt, t: tb.Const(b.c, 64), signed: true, weak: true}
		}
		return SV{k: kInt, t: tb.Ite(c.t, a.t, b.t), signed: a.signed, weak: a.weak && b.weak}
	case "old":
		need(1)
		if s.oldMem == nil {
			s.fail("old() not available here")
		}
		c := *s
		c.mem = s.oldMem
		if s.oldGh != nil {
			c.gh = s.oldGh
		}
		r := c.eval(args[0])
		return r
	case "next":
		need(1)
		if s.nextLookup == nil {
			s.fail("next() is only available in ghost update expressions")
		}
		c := *s
		c.vars = map[string]SV{}
		c.parent = nil
		c.golookup = s.nextLookup
		return c.eval(args[0])
	case "atentry":
		need(1)
		if s.loopEntryMem == nil {
			s.fail("atentry() only in loop invariants")
		}
		c := *s
		c.mem = s.loopEntryMem
		if s.loopEntryGh != nil {
			c.gh = s.loopEntryGh
		}
		return c.eval(args[0])
	case "len", "cap":
		need(1)
		v := s.eval(args[0])
		if v.k == kVal {
			switch b := v.v.(type) {
			case SliceV:
				if name == "len" {
					return SV{k: kInt, t: b.Len, signed: true}
				}
				return SV{k: kInt, t: b.Cap, signed: true}
			case StringV:
				return SV{k: kInt, t: b.Len, signed: true}
			case ArrayV:
				return SV{k: kUntyped, c: big.NewInt(int64(len(b.Elems)))}
			}
		}
		s.fail("%s of non-sequence", name)
	case "forall", "exists":
		// forall(k, lo, hi, P): for all int k with lo <= k < hi
		need(4)
		kid, ok := args[0].(*ast.Ident)
		if !ok {
			s.fail("quantifier variable must be an identifier")
		}
		lo := s.eval(args[1])
		hi := s.eval(args[2])
		univ := name == "forall"
		// literal small range: expand
		if lo.k == kUntyped && hi.k == kUntyped && new(big.Int).Sub(hi.c, lo.c).Cmp(big.NewInt(300)) <= 0 {
			var parts []*Term
			for k := new(big.Int).Set(lo.c); k.Cmp(hi.c) < 0; k = new(big.Int).Add(k, bigOne) {
				c := s.child()
				c.goal = s.goal
				c.vars[kid.Name] = SV{k: kInt, t: tb.Const(k, 64), signed: true}
				p := c.eval(args[3])
				if p.k != kBool {
					s.fail("quantifier body not boolean")
				}
				parts = append(parts, p.t)
			}
			if univ {
				return SV{k: kBool, t: tb.And(parts...)}
			}
			return SV{k: kBool, t: tb.Or(parts...)}
		}
		lot := s.toInt(lo, 64, true)
		hit := s.toInt(hi, 64, true)
		// Skolemise when the quantifier is universal in a goal (or existential in a hypothesis)
		skolem := univ == s.goal
		var kv *Term
		if skolem {
			// Skolem constants come from a small shared pool (one per nesting
			// depth): quantified hypotheses are instantiated at exactly these
			// constants, so goal and hypotheses meet on the same index terms.
			if s.qdepth < len(e.skolemPool) {
				kv = e.skolemPool[s.qdepth]
			} else {
				kv = tb.Fresh("sk."+kid.Name, BV(64))
			}
		} else {
			kv = tb.Bound(kid.Name, BV(64))
		}
		c := s.child()
		c.goal = s.goal
		c.instTerms = s.instTerms
		c.extraInst = s.extraInst
		c.qrec = s.qrec
		if skolem {
			c.qdepth = s.qdepth + 1
		}
		c.vars[kid.Name] = SV{k: kInt, t: kv, signed: true}
		p := c.eval(args[3])
		if p.k != kBool {
			s.fail("quantifier body not boolean")
		}
		rng := tb.And(tb.Sle(lot, kv), tb.Slt(kv, hit))
		var body *Term
		if univ {
			body = tb.Implies(rng, p.t)
		} else {
			body = tb.And(rng, p.t)
		}
		if skolem {
			return SV{k: kBool, t: body}
		}
		// The quantifier stays for the solver; in addition it is instantiated
		// here at the small constants and at the range ends, which is what
		// byte-level code (varints, fixed layouts) needs and what solvers
		// without good triggers for bit-vector index terms miss.
		var insts []*Term
		instAt := func(kt *Term) {
			c2 := s.child()
			c2.goal = s.goal
			c2.vars[kid.Name] = SV{k: kInt, t: kt, signed: true}
			p2 := c2.eval(args[3])
			r2 := tb.And(tb.Sle(lot, kt), tb.Slt(kt, hit))
			if univ {
				insts = append(insts, tb.Implies(r2, p2.t))
			} else {
				insts = append(insts, tb.And(r2, p2.t))
			}
		}
		if e.eagerConstInst {
			for c := 0; c <= 10; c++ {
				instAt(tb.ConstU(uint64(c), 64))
			}
		}
		instAt(tb.Sub(hit, tb.ConstU(1, 64)))
		if s.qrec != nil {
			s.qrec.quant = true
		}
		for _, it := range s.extraInst {
			instAt(it)
		}
		if s.qrec == nil && len(s.extraInst) == 0 {
			// a universally quantified premise inside a goal: instantiate at
			// the loop variables in scope right away
			for _, it := range s.instTerms {
				instAt(it)
				instAt(tb.Sub(it, tb.ConstU(1, 64)))
				instAt(tb.Add(it, tb.ConstU(1, 64)))
			}
		}

		for _, sk := range e.skolemPool {
			instAt(sk)
			// re-based views of the same sequence (b[1:n] vs b) shift indices by one
			instAt(tb.Sub(sk, tb.ConstU(1, 64)))
			instAt(tb.Add(sk, tb.ConstU(1, 64)))
		}
		if univ {
			return SV{k: kBool, t: tb.And(append([]*Term{tb.Forall([]*Term{kv}, body)}, insts...)...)}
		}
		return SV{k: kBool, t: tb.Or(append([]*Term{tb.Exists([]*Term{kv}, body)}, insts...)...)}
	case "bitlen":
		need(1)
		v := s.eval(args[0])
		if v.k != kInt {
			s.fail("bitlen needs a typed integer")
		}
		return SV{k: kInt, t: e.bitLen(v.t, 64), signed: true}
	case "ctz":
		need(1)
		v := s.eval(args[0])
		if v.k != kInt {
			s.fail("ctz needs a typed integer")
		}
		return SV{k: kInt, t: e.ctz(v.t, 64), signed: true}
	case "out", "in":
		// ghost byte streams (writer output / reader input): own memories
		need(1)
		if s.gh == nil {
			s.fail("ghost state not available here")
		}
		i := s.toInt(s.eval(args[0]), 64, false)
		return SV{k: kInt, t: e.mc.Read8(s.gh.mm[name], i)}
	case "outlen", "inpos", "inlen", "ticks":
		need(0)
		if s.gh == nil {
			s.fail("ghost state not available here")
		}
		return SV{k: kInt, t: s.gh.sc[name], signed: true}
	case "mem8":
		need(1)
		a := s.toInt(s.eval(args[0]), 64, false)
		return SV{k: kInt, t: e.mc.Read8(s.mem, a)}
	case "oldmem8":
		// the byte the pre-state memory holds at an address computed in the
		// current state
		need(1)
		if s.oldMem == nil {
			s.fail("oldmem8() not available here")
		}
		a := s.toInt(s.eval(args[0]), 64, false)
		return SV{k: kInt, t: e.mc.Read8(s.oldMem, a)}
	case "le16", "le32", "le64", "be16", "be32", "be64":
		need(1)
		a := s.toInt(s.eval(args[0]), 64, false)
		w, _ := strconv.Atoi(name[2:])
		v := e.mc.ReadLE(s.mem, a, w)
		if name[0] == 'b' {
			v = e.bswap(v)
		}
		return SV{k: kInt, t: v}
	case "ptr":
		need(1)
		v := s.eval(args[0])
		if v.k == kInt {
			return SV{k: kInt, t: v.t}
		}
		if v.k == kVal {
			switch b := v.v.(type) {
			case SliceV:
				return SV{k: kInt, t: b.Ptr}
			case StringV:
				return SV{k: kInt, t: b.Ptr}
			}
		}
		s.fail("ptr of non-pointer")
	case "separate":
		// separate(a, b): regions do not overlap
		need(2)
		p, n := e.evalRegion(s, args[0], s.what)
		q, m := e.evalRegion(s, args[1], s.what)
		return SV{k: kBool, t: e.disjoint(p, n, q, m)}
	case "inregion":
		// inregion(addr, region)
		need(2)
		a := s.toInt(s.eval(args[0]), 64, false)
		p, n := e.evalRegion(s, args[1], s.what)
		return SV{k: kBool, t: e.mc.inRange(a, p, n)}
	case "unchanged":
		// unchanged(region): every byte equals its old() value
		need(1)
		if s.oldMem == nil {
			s.fail("unchanged() needs a pre-state")
		}
		p, n := e.evalRegion(s, args[0], s.what)
		return SV{k: kBool, t: s.bytesEq(s.mem, p, s.oldMem, p, n)}
	case "sameas":
		// sameas(regionA, regionB): equal length and equal bytes (current memory)
		need(2)
		p, n := e.evalRegion(s, args[0], s.what)
		q, m := e.evalRegion(s, args[1], s.what)
		return SV{k: kBool, t: tb.And(tb.Eq(n, m), s.bytesEq(s.mem, p, s.mem, q, n))}
	case "sameasold":
		// sameasold(regionNow, regionOld): bytes now equal bytes of the other region in the pre-state
		need(2)
		p, n := e.evalRegion(s, args[0], s.what)
		c := *s
		c.mem = s.oldMem
		q, m := e.evalRegion(&c, args[1], s.what)
		return SV{k: kBool, t: tb.And(tb.Eq(n, m), s.bytesEq(s.mem, p, s.oldMem, q, n))}
	case "min", "max":
		need(2)
		a, b := s.unify(s.eval(args[0]), s.eval(args[1]))
		if a.k == kUntyped {
			if (a.c.Cmp(b.c) < 0) == (name == "min") {
				return a
			}
			return b
		}
		lt := e.cmp(token.LSS, a.signed, a.t, b.t)
		if name == "min" {
			return SV{k: kInt, t: tb.Ite(lt, a.t, b.t), signed: a.signed}
		}
		return SV{k: kInt, t: tb.Ite(lt, b.t, a.t), signed: a.signed}
	case "bool2int":
		need(1)
		v := s.eval(args[0])
		return SV{k: kInt, t: tb.Ite(v.t, tb.ConstU(1, 64), tb.ConstU(0, 64)), signed: true}
	case "isnil":
		need(1)
		v := s.eval(args[0])
		return SV{k: kBool, t: s.valEqSpec(v, SV{k: kUntyped, c: new(big.Int)})}
	case "typeis":
		// typeis(iface, "pkg.Type")
		need(2)
		v := s.eval(args[0])
		iv, ok := v.v.(IfaceV)
		lit, ok2 := args[1].(*ast.BasicLit)
		if !ok || !ok2 {
			s.fail("typeis(iface, \"type\")")
		}
		tn, _ := strconv.Unquote(lit.Value)
		t := e.findType(tn)
		if t == nil {
			s.fail("unknown type %s", tn)
		}
		return SV{k: kBool, t: tb.Eq(iv.Typ, e.typeConst(t))}
	}
	// conversion
	if st, ok := specTypes[name]; ok {
		need(1)
		v := s.eval(args[0])
		switch v.k {
		case kUntyped:
			return SV{k: kInt, t: tb.Const(v.c, st.w), signed: st.signed}
		case kInt:
			return SV{k: kInt, t: s.toInt(v, st.w, st.signed), signed: st.signed}
		case kBool:
			return SV{k: kInt, t: tb.Ite(v.t, tb.ConstU(1, st.w), tb.ConstU(0, st.w)), signed: st.signed}
		}
		s.fail("bad conversion to %s", name)
	}
	// spec function
	if sf, ok := e.specs[name]; ok {
		if len(args) != len(sf.Params) {
			s.fail("spec %s expects %d arguments", name, len(sf.Params))
		}
		if s.depth > 64 {
			s.fail("spec recursion too deep (%s)", name)
		}
		c := &Scope{e: e, vars: map[string]SV{}, mem: s.mem, oldMem: s.oldMem, loopEntryMem: s.loopEntryMem, loopEntryGh: s.loopEntryGh, gh: s.gh, oldGh: s.oldGh, goal: s.goal, pkg: s.pkg, what: s.what + " / spec " + name, depth: s.depth + 1, instTerms: s.instTerms, qdepth: s.qdepth, extraInst: s.extraInst, qrec: s.qrec}
		for i, p := range sf.Params {
			c.vars[p.Name] = s.coerceParam(s.eval(args[i]), p.Type, name+"."+p.Name)
		}
		r := c.eval(sf.Body)
		return s.coerceParam(r, sf.Ret, name+" result")
	}
	// uninterpreted function
	if u := e.findUF(name); u != nil {
		if len(args) != len(u.Args) {
			s.fail("uf %s expects %d arguments", name, len(u.Args))
		}
		var sorts []Sort
		var ts []*Term
		for i, a := range args {
			v := s.coerceParam(s.eval(a), u.Args[i], name)
			sorts = append(sorts, v.t.sort)
			ts = append(ts, v.t)
		}
		if u.Ret == "bool" {
			return SV{k: kBool, t: tb.App(tb.DeclUF("uf."+name, sorts, BoolSort), ts...)}
		}
		st, ok := specTypes[u.Ret]
		if !ok {
			s.fail("uf %s: bad result type", name)
		}
		return SV{k: kInt, t: tb.App(tb.DeclUF("uf."+name, sorts, BV(st.w)), ts...), signed: st.signed}
	}
	// assumed pure function applied inside a spec
	if con := e.findSpecCallable(name); con != nil {
		var vals []Val
		key := name
		for _, a := range args {
			v := s.eval(a)
			switch v.k {
			case kVal:
				vals = append(vals, v.v)
			case kBool, kInt:
				vals = append(vals, Scalar{v.t})
			default:
				s.fail("%s: untyped constant argument needs a conversion", name)
			}
			key += "|" + valKey(vals[len(vals)-1])
		}
		if r, ok := e.specCallCache[key]; ok {
			return r
		}
		fn := e.w.funcs[con.Target]
		if fn == nil {
			s.fail("%s: no function %s", name, con.Target)
		}
		for i := range vals {
			if sc, ok := vals[i].(Scalar); ok && sc.T.sort.K == SBV && i < len(fn.Params) {
				if w := bitsOf(fn.Params[i].Type()); w != sc.T.sort.W {
					s.fail("%s: argument %d has %d bits, want %d", name, i, sc.T.sort.W, w)
				}
			}
		}
		rt := fn.Signature.Results()
		var inv []*Term
		var res Val
		if rt.Len() == 1 {
			res = e.freshVal("spec."+name, rt.At(0).Type(), &inv)
		} else {
			res = e.freshVal("spec."+name, rt, &inv)
		}
		for _, t := range inv {
			e.assume(t)
		}
		st := &execState{reach: tb.True(), env: nil, mem: s.mem}
		f := &Frame{e: e, fn: fn}
		csc := f.calleeScope(st, fn, con, fn.Signature, vals, res, s.mem, false)
		for _, en := range con.Ensures {
			csc.goal = false
			e.assume(e.evalBool(csc, en.Expr, en.Text))
		}
		e.trusted["assumed contract: "+con.Target] = true
		var out SV
		if rt.Len() == 1 {
			out = e.svOf(res, rt.At(0).Type())
		} else {
			out = SV{k: kVal, v: res, gt: rt}
		}
		e.specCallCache[key] = out
		return out
	}
	s.fail("unknown function %q", name)
	return SV{}
}

func valKey(v Val) string {
	switch x := v.(type) {
	case Scalar:
		return fmt.Sprint(x.T.id)
	case SliceV:
		return fmt.Sprint(x.Ptr.id, x.Len.id, x.Cap.id)
	case StringV:
		return fmt.Sprint(x.Ptr.id, x.Len.id)
	case IfaceV:
		return fmt.Sprint(x.Typ.id, x.Data.id)
	case StructV:
		var sb strings.Builder
		for _, f := range x.Fields {
			sb.WriteString(valKey(f) + ";")
		}
		return sb.String()
	}
	return fmt.Sprintf("%p", v)
}

func (e *Engine) findUF(name string) *UFDecl {
	for _, cs := range e.csets {
		if u, ok := cs.UFs[name]; ok {
			return u
		}
	}
	return nil
}

func (e *Engine) findSpecCallable(name string) *Contract {
	for _, cs := range e.csets {
		for _, c := range cs.Funcs {
			if c.SpecName == name && c.Assumed {
				return c
			}
		}
	}
	return nil
}

func (s *Scope) bytesEq(m1 *Mem, p *Term, m2 *Mem, q *Term, n *Term) *Term {
	e := s.e
	tb := e.tb
	if n.IsConst() && n.val.IsUint64() && n.val.Uint64() <= 64 {
		var cs []*Term
		for i := uint64(0); i < n.val.Uint64(); i++ {
			o := tb.ConstU(i, 64)
			cs = append(cs, tb.Eq(e.mc.Read8(m1, tb.Add(p, o)), e.mc.Read8(m2, tb.Add(q, o))))
		}
		return tb.And(cs...)
	}
	var k *Term
	if s.goal {
		k = e.skolemPool[0]
	} else {
		k = tb.Bound("byte", BV(64))
	}
	body := tb.Implies(tb.Ult(k, n), tb.Eq(e.mc.Read8(m1, tb.Add(p, k)), e.mc.Read8(m2, tb.Add(q, k))))
	if s.goal {
		return body
	}
	return tb.Forall([]*Term{k}, body)
}

func (s *Scope) coerceParam(v SV, typ string, what string) SV {
	tb := s.e.tb
	if typ == "bool" {
		if v.k != kBool {
			s.fail("%s: expected bool", what)
		}
		return v
	}
	if st, ok := specTypes[typ]; ok {
		switch v.k {
		case kUntyped:
			return SV{k: kInt, t: tb.Const(v.c, st.w), signed: st.signed}
		case kInt:
			if v.weak {
				return SV{k: kInt, t: tb.SExt(v.t, st.w), signed: st.signed}
			}
			if v.t.sort.W != st.w {
				s.fail("%s: expected %s (%d bits), got %d bits", what, typ, st.w, v.t.sort.W)
			}
			return SV{k: kInt, t: v.t, signed: st.signed, gt: v.gt}
		}
		s.fail("%s: expected %s", what, typ)
	}
	switch typ {
	case "bytes", "string", "any":
		if v.k != kVal && typ != "any" {
			s.fail("%s: expected %s", what, typ)
		}
		return v
	}
	s.fail("%s: unknown spec type %q", what, typ)
	return SV{}
}

// bitLen(x) = number of bits needed to represent x (math/bits.Len).
func (e *Engine) bitLen(x *Term, outw int) *Term {
	tb := e.tb
	w := x.sort.W
	r := tb.ConstU(0, outw)
	for i := 0; i < w; i++ {
		// highest set bit wins: build from low to high
		bit := tb.Eq(tb.Extract(i, i, x), tb.ConstU(1, 1))
		r = tb.Ite(bit, tb.ConstU(uint64(i+1), outw), r)
	}
	return r
}

func (e *Engine) ctz(x *Term, outw int) *Term {
	tb := e.tb
	w := x.sort.W
	r := tb.ConstU(uint64(w), outw)
	for i := w - 1; i >= 0; i-- {
		bit := tb.Eq(tb.Extract(i, i, x), tb.ConstU(1, 1))
		r = tb.Ite(bit, tb.ConstU(uint64(i), outw), r)
	}
	return r
}

func (e *Engine) bswap(x *Term) *Term {
	tb := e.tb
	n := x.sort.W / 8
	var r *Term
	for i := 0; i < n; i++ {
		by := tb.Extract(i*8+7, i*8, x)
		if r == nil {
			r = by
		} else {
			r = tb.Concat(r, by)
		}
	}
	return r
}

// scopeAt builds the evaluation scope for contract expressions attached to
// frame f at execution state st. Names resolve to parameters, header phis /
// debug-named SSA values present in the environment; over overrides values.
func (f *Frame) scopeAt(st *execState, over map[ssa.Value]Val) *Scope {
	e := f.e
	sc := &Scope{e: e, vars: map[string]SV{}, mem: st.mem, oldMem: f.entryMem, gh: st.gh, oldGh: f.entryGh, pkg: f.fn.Pkg.Pkg}
	// loop variables (integer phis) currently in scope are natural
	// instantiation points for quantified hypotheses
	for _, vals := range f.names {
		for _, c := range vals {
			phi, ok := c.(*ssa.Phi)
			if !ok || len(sc.instTerms) >= 8 {
				continue
			}
			if v, ok := st.env[phi]; ok {
				if sv, ok := v.(Scalar); ok && sv.T.sort == BV(64) && !sv.T.IsConst() {
					dup := false
					for _, t := range sc.instTerms {
						if t == sv.T {
							dup = true
						}
					}
					if !dup {
						sc.instTerms = append(sc.instTerms, sv.T)
					}
				}
			}
		}
	}
	sort.Slice(sc.instTerms, func(i, j int) bool { return sc.instTerms[i].id < sc.instTerms[j].id })
	sc.addrOfLocal = func(name string) (*Term, *Term, bool) {
		if a := f.localByName(name); a != nil {
			if pv, ok := st.env[a]; ok {
				et := a.Type().Underlying().(*types.Pointer).Elem()
				return pv.(Scalar).T, e.tb.ConstU(uint64(sizes.Sizeof(et)), 64), true
			}
		}
		return nil, nil, false
	}
	sc.golookup = func(name string) (SV, bool) {
		if gv, ok := f.ghostVals[name]; ok {
			return gv, true
		}
		if bv, ok := st.env[ghostKey{name}]; ok {
			return e.svOf(bv, f.boundTypes[name]), true
		}
		if f.con != nil {
			for _, ac := range f.con.Afters {
				if ac.Name == name {
					// the call was not made on this path: an arbitrary value
					if fn := e.w.funcs[""]; fn == nil {
						for _, cand := range e.w.funcs {
							if cand.Name() == ac.Callee && cand.Pkg == f.fn.Pkg {
								rs := cand.Signature.Results()
								if ac.Result < rs.Len() {
									return e.svOf(e.freshVal("unbound."+name, rs.At(ac.Result).Type(), nil), rs.At(ac.Result).Type()), true
								}
							}
						}
					}
				}
			}
		}
		// in postconditions a parameter name denotes the value passed in
		if sc.paramsFirst {
			for i, p := range f.fn.Params {
				if p.Name() == name {
					return e.svOf(f.params[i], p.Type()), true
				}
			}
		}
		// a loop-carried / merged value (phi) of that name shadows the parameter
		for _, c := range f.names[name] {
			if _, isPhi := c.(*ssa.Phi); !isPhi {
				continue
			}
			if v, ok := over[c]; ok {
				return e.svOf(v, c.Type()), true
			}
		}
		// among the phis of that name that are live here, the one defined
		// closest to the current block (deepest dominator) is the variable's
		// current value
		var lastPhi ssa.Value
		for _, c := range f.names[name] {
			phi, isPhi := c.(*ssa.Phi)
			if !isPhi {
				continue
			}
			if _, ok := st.env[c]; !ok {
				continue
			}
			if f.curBlock != nil && phi.Block() != f.curBlock && !phi.Block().Dominates(f.curBlock) {
				continue
			}
			if lastPhi == nil || lastPhi.(*ssa.Phi).Block().Dominates(phi.Block()) {
				lastPhi = c
			}
		}
		if lastPhi != nil {
			return e.svOf(st.env[lastPhi], lastPhi.Type()), true
		}
		for i, p := range f.fn.Params {
			if p.Name() == name {
				return e.svOf(f.params[i], p.Type()), true
			}
		}
		for i, fv := range f.fn.FreeVars {
			if fv.Name() == name {
				return e.svOf(f.free[i], fv.Type()), true
			}
		}
		// an address-taken local: its current contents
		if a := f.localByName(name); a != nil {
			if pv, ok := st.env[a]; ok {
				et := a.Type().Underlying().(*types.Pointer).Elem()
				return e.svOf(e.load(sc.mem, pv.(Scalar).T, et), et), true
			}
		}
		cands := f.names[name]
		var found ssa.Value
		nfound := 0
		for _, c := range cands {
			if _, ok := over[c]; ok {
				found, nfound = c, 1
				break
			}
		}
		if nfound == 0 {
			for _, c := range cands {
				if _, ok := st.env[c]; ok {
					if found == nil || found != c {
						found = c
						nfound++
					}
				}
			}
		}
		if nfound == 0 {
			return SV{}, false
		}
		if nfound > 1 {
			// prefer phis (loop-carried / merged values) defined latest
			var best ssa.Value
			for _, c := range cands {
				if _, ok := st.env[c]; ok {
					if _, isPhi := c.(*ssa.Phi); isPhi {
						best = c
					}
				}
			}
			if best == nil {
				panic(specError{fmt.Sprintf("name %q is ambiguous here (%d SSA values)", name, nfound)})
			}
			found = best
		}
		if v, ok := over[found]; ok {
			return e.svOf(v, found.Type()), true
		}
		return e.svOf(st.env[found], found.Type()), true
	}
	return sc
}

// lazyHyp is a quantified hypothesis that can be re-instantiated at
// goal-directed index terms when an obligation is discharged.
type lazyHyp struct {
	sc     Scope
	expr   ast.Expr
	text   string
	guard  *Term // nil = unconditional
	bases  []*Term
	inst   []*Term // loop variables in scope when the hypothesis was assumed
	before int     // index in e.assumes after which it is in force
}

// assumeClause evaluates a hypothesis clause, assumes it (under guard) and
// registers it for goal-directed instantiation if it contains quantifiers.
func (e *Engine) assumeClause(sc *Scope, ex ast.Expr, text string, guard *Term) {
	rec := &qRecorder{}
	sc.qrec = rec
	sc.goal = false
	t := e.evalBool(sc, ex, text)
	sc.qrec = nil
	if guard != nil {
		t = e.tb.Implies(guard, t)
	}
	e.assume(t)
	if rec.quant {
		cp := *sc
		e.lazy = append(e.lazy, &lazyHyp{sc: cp, expr: ex, text: text, guard: guard, bases: rec.bases, inst: sc.instTerms, before: len(e.assumes)})
	}
}

// skolemReads collects the addresses of memory reads in ts that involve a
// pool Skolem constant.
func (e *Engine) skolemReads(ts []*Term) []*Term {
	pool := map[*Term]bool{}
	for _, s := range e.skolemPool {
		pool[s] = true
	}
	seen := map[int]bool{}
	var out, others []*Term
	var walk func(t *Term)
	walk = func(t *Term) {
		if seen[t.id] {
			return
		}
		seen[t.id] = true
		if t.op == "select" && !t.bound {
			a := t.args[1]
			l := e.tb.toLin(a)
			sk := false
			for _, at := range l.atoms {
				if pool[at] {
					sk = true
				}
			}
			if sk {
				out = append(out, a)
			} else {
				others = append(others, a)
			}
		}
		for _, a := range t.args {
			walk(a)
		}
	}
	for _, t := range ts {
		walk(t)
	}
	// reads at Skolem indices first, then the other reads of the goal
	_ = others
	return out
}

// goalDirectedInstances re-instantiates the lazy hypotheses in force for an
// obligation at the index terms that make their reads meet the goal's reads.
func (e *Engine) goalDirectedInstances(o *Obligation, goalTerms []*Term) []*Term {
	if len(e.lazy) == 0 {
		return nil
	}
	reads := e.skolemReads(goalTerms)
	if len(reads) > 12 {
		reads = reads[:12]
	}
	var out []*Term
	for _, lh := range e.lazy {
		if lh.before > o.NAssume {
			continue
		}
		var cands []*Term
		seen := map[*Term]bool{}
		for _, b := range lh.bases {
			for _, a := range reads {
				k := e.tb.Sub(a, b)
				if !seen[k] && !k.IsConst() {
					seen[k] = true
					cands = append(cands, k)
				}
			}
		}
		// an address read in the goal, minus any one pointer-like summand of
		// it, is the index of that byte in some buffer: data that was moved
		// between buffers keeps its index even though the base changed
		for _, a := range reads {
			l := e.tb.toLin(a)
			if len(l.atoms) < 2 || len(l.atoms) > 6 {
				continue
			}
			for i, at := range l.atoms {
				if l.coef[i].Cmp(bigOne) != 0 || !pointerLike(at) {
					continue
				}
				k := e.tb.Sub(a, at)
				if !seen[k] && !k.IsConst() && len(cands) < 40 {
					seen[k] = true
					cands = append(cands, k)
				}
			}
		}
		for _, it := range lh.inst {
			for _, k := range []*Term{it, e.tb.Sub(it, e.tb.ConstU(1, 64)), e.tb.Add(it, e.tb.ConstU(1, 64))} {
				if !seen[k] {
					seen[k] = true
					cands = append(cands, k)
				}
			}
		}
		if len(cands) == 0 {
			continue
		}
		if len(cands) > 48 {
			cands = cands[:48]
		}
		func() {
			defer func() {
				if r := recover(); r != nil {
					if _, ok := r.(specError); !ok {
						panic(r)
					}
				}
			}()
			sc := lh.sc
			sc.extraInst = cands
			sc.goal = false
			sc.qrec = nil
			n := len(e.assumes)
			t := e.evalBool(&sc, lh.expr, lh.text)
			e.assumes = e.assumes[:n] // spec-call side assumptions are not needed twice
			if lh.guard != nil {
				t = e.tb.Implies(lh.guard, t)
			}
			out = append(out, t)
		}()
	}
	return out
}

func exprString(e ast.Expr) string {
	var sb strings.Builder
	printer.Fprint(&sb, token.NewFileSet(), e)
	return sb.String()
}

// pointerLike: a summand of an address that is plausibly the base pointer
// (a pointer-valued input or allocation, or a pointer loaded from memory).
func pointerLike(t *Term) bool {
	switch t.op {
	case "var":
		return strings.HasSuffix(t.name, ".ptr") || strings.HasPrefix(t.name, "alloc.") || strings.HasPrefix(t.name, "make.") || strings.Contains(t.name, ".data")
	case "concat":
		return t.sort.W == 64
	case "ite":
		return pointerLike(t.args[1]) || pointerLike(t.args[2])
	}
	return false
}
