package main

import (
	"flag"
	"fmt"
	"os"
	"runtime/debug"
	"sort"
	"strings"
	"time"
)

func main() {
	if len(os.Args) < 2 {
		fmt.Fprintln(os.Stderr, "usage: govc check|replay|selftest|list ...")
		os.Exit(2)
	}
	debug.SetGCPercent(400)
	probeSolvers()
	switch os.Args[1] {
	case "check":
		os.Exit(cmdCheck(os.Args[2:]))
	case "replay":
		os.Exit(cmdReplay(os.Args[2:]))
	case "list":
		os.Exit(cmdList(os.Args[2:]))
	default:
		fmt.Fprintln(os.Stderr, "unknown command", os.Args[1])
		os.Exit(2)
	}
}

var allPkgs = []string{"./ascii", "./iso8601", "./json", "./proto", "./thrift", "./internal/runtime_reflect"}

func cmdList(args []string) int {
	fs := flag.NewFlagSet("list", flag.ExitOnError)
	repo := fs.String("repo", "/repo", "repository root")
	fs.Parse(args)
	w, err := loadWorld(*repo, allPkgs)
	if err != nil {
		fmt.Fprintln(os.Stderr, err)
		return 2
	}
	for _, cs := range w.csets {
		for _, n := range cs.Order {
			c := cs.Funcs[n]
			fmt.Printf("%-50s props=%v requires=%d ensures=%d loops=%d assumed=%v\n", n, c.Props, len(c.Requires), len(c.Ensures), len(c.Loops), c.Assumed)
		}
	}
	return 0
}

type checkOpts struct {
	repo     string
	property string
	tier     string
	funcs    string
	verbose  bool
	keep     string
	dump     string
	workers  int
	seed     int64
	noReplay bool
}

func cmdCheck(args []string) int {
	fs := flag.NewFlagSet("check", flag.ExitOnError)
	var o checkOpts
	fs.StringVar(&o.repo, "repo", "/repo", "repository root")
	fs.StringVar(&o.property, "property", "", "property id (Cxx)")
	fs.StringVar(&o.tier, "tier", "quick", "quick|thorough")
	fs.StringVar(&o.funcs, "func", "", "comma-separated function names (debugging)")
	fs.BoolVar(&o.verbose, "v", false, "verbose")
	fs.StringVar(&o.keep, "keep", "", "keep SMT files in this directory")
	fs.StringVar(&o.dump, "dump", "", "dump SSA of this function and exit")
	fs.IntVar(&o.workers, "j", 14, "parallel solver processes")
	fs.BoolVar(&o.noReplay, "no-replay", false, "do not replay counterexamples (development)")
	fs.Parse(args)
	if t := os.Getenv("VERIF_TIER"); t != "" && o.tier == "" {
		o.tier = t
	}
	t0 := time.Now()
	w, err := loadWorld(o.repo, allPkgs)
	if err != nil {
		fmt.Fprintln(os.Stderr, "load:", err)
		return 2
	}
	if o.dump != "" {
		fn := w.funcs[o.dump]
		if fn == nil {
			var names []string
			for n := range w.funcs {
				if strings.Contains(n, o.dump) {
					names = append(names, n)
				}
			}
			sort.Strings(names)
			fmt.Println("no such function; candidates:", names)
			return 2
		}
		fn.WriteTo(os.Stdout)
		return 0
	}
	fmt.Fprintf(os.Stderr, "loaded in %.1fs\n", time.Since(t0).Seconds())
	return runCheck(w, &o, t0)
}
