package main

// Replay of solver counterexamples against the real code: an in-package test
// is generated from the model and run with `go test -overlay` (nothing is
// written under /repo).

import (
	"bytes"
	"encoding/json"
	"fmt"
	"go/types"
	"math/big"
	"os"
	"os/exec"
	"path/filepath"
	"strconv"
	"strings"
	"time"

	"golang.org/x/tools/go/ssa"
)

type ReplayFile struct {
	Property   string            `json:"property"`
	Obligation string            `json:"obligation"`
	Kind       string            `json:"kind"`
	Clause     string            `json:"clause"`
	Function   string            `json:"function"`
	Position   string            `json:"position"`
	Solver     string            `json:"solver"`
	Status     string            `json:"solver_status"`
	Model      map[string]string `json:"model,omitempty"`
	PkgDir     string            `json:"package_dir,omitempty"`
	TestSource string            `json:"test_source,omitempty"`
	Output     string            `json:"real_code_output,omitempty"`
	Confirmed  bool              `json:"confirmed"`
	Note       string            `json:"note,omitempty"`
	SolverOut  string            `json:"solver_output,omitempty"`
}

const maxReplayLen = 1 << 16

func modelInt(v string) (*big.Int, bool) {
	switch {
	case strings.HasPrefix(v, "#x"):
		return new(big.Int).SetString(v[2:], 16)
	case strings.HasPrefix(v, "#b"):
		return new(big.Int).SetString(v[2:], 2)
	}
	return nil, false
}

// goLiteral renders the model value of parameter p as Go source.
func goLiteral(pkg *types.Package, name string, t types.Type, m map[string]string, pre *[]string) (string, bool) {
	qual := func(p *types.Package) string {
		if p == pkg {
			return ""
		}
		return p.Name()
	}
	ts := types.TypeString(t, qual)
	bytesOf := func(n int) []byte {
		bs := make([]byte, n)
		for i := 0; i < n && i < modelBytes; i++ {
			if v, ok := m[fmt.Sprintf("%s[%d]", name, i)]; ok {
				if b, ok := modelInt(v); ok {
					bs[i] = byte(b.Uint64())
				}
			}
		}
		return bs
	}
	switch u := t.Underlying().(type) {
	case *types.Basic:
		switch {
		case u.Kind() == types.Bool:
			return fmt.Sprintf("%s(%s)", ts, m[name]), m[name] != ""
		case u.Kind() == types.String:
			lv, ok := modelInt(m[name+".len"])
			if !ok || !lv.IsInt64() || lv.Int64() > maxReplayLen {
				return "", false
			}
			return fmt.Sprintf("%s(%s)", ts, strconv.Quote(string(bytesOf(int(lv.Int64()))))), true
		case u.Info()&types.IsInteger != 0:
			v, ok := modelInt(m[name])
			if !ok {
				return "", false
			}
			if u.Info()&types.IsUnsigned == 0 {
				w := uint(sizes.Sizeof(t) * 8)
				if v.Bit(int(w-1)) == 1 {
					v = new(big.Int).Sub(v, new(big.Int).Lsh(bigOne, w))
				}
			}
			return fmt.Sprintf("%s(%s)", ts, v.String()), true
		case u.Info()&types.IsFloat != 0:
			v, ok := modelInt(m[name])
			if !ok {
				return "", false
			}
			if sizes.Sizeof(t) == 4 {
				return fmt.Sprintf("%s(math.Float32frombits(%d))", ts, v.Uint64()), true
			}
			return fmt.Sprintf("%s(math.Float64frombits(%d))", ts, v.Uint64()), true
		}
	case *types.Slice:
		if b, ok := u.Elem().Underlying().(*types.Basic); ok && b.Kind() == types.Uint8 {
			lv, ok1 := modelInt(m[name+".len"])
			cv, ok2 := modelInt(m[name+".cap"])
			pv, _ := modelInt(m[name+".ptr"])
			if !ok1 || !ok2 || !lv.IsInt64() || lv.Int64() > maxReplayLen {
				return "", false
			}
			if pv != nil && pv.Sign() == 0 {
				return fmt.Sprintf("%s(nil)", ts), true
			}
			c := lv.Int64()
			if cv.IsInt64() && cv.Int64() > c && cv.Int64() <= maxReplayLen {
				c = cv.Int64()
			}
			v := "govc_" + name
			*pre = append(*pre, fmt.Sprintf("%s := make([]byte, %d, %d)\n\tcopy(%s, %s)", v, lv.Int64(), c, v, strconv.Quote(string(bytesOf(int(lv.Int64()))))))
			return fmt.Sprintf("%s(%s)", ts, v), true
		}
	}
	return "", false
}

const replayHeader = `package %s

import (
	govcfmt "fmt"
	govctesting "testing"
%s)

var _ = govcfmt.Sprint

func TestGovcReplay(t *govctesting.T) {
	defer func() {
		if r := recover(); r != nil {
			govcfmt.Println("GOVC-REPLAY: PANIC", r)
		}
	}()
%s
}
`

// buildReplay creates the test source for a counterexample of function fn.
func buildReplay(w *World, fn *ssa.Function, con *Contract, ob *Obligation, m map[string]string) (string, string) {
	if fn == nil || fn.Pkg == nil {
		return "", "no function"
	}
	if fn.Signature.Recv() != nil || len(fn.FreeVars) > 0 {
		return "", "methods and closures are replayed only through templates"
	}
	pkg := fn.Pkg.Pkg
	var pre []string
	var args []string
	var body strings.Builder
	for i, p := range fn.Params {
		lit, ok := goLiteral(pkg, paramName(p.Name(), i), p.Type(), m, &pre)
		if !ok {
			return "", fmt.Sprintf("parameter %s of type %s cannot be reconstructed from the model", p.Name(), p.Type())
		}
		args = append(args, lit)
	}
	for _, s := range pre {
		body.WriteString("\t" + s + "\n")
	}
	imports := ""
	tpl := ""
	if con != nil && con.ReplayTpl != "" {
		data, err := os.ReadFile(filepath.Join(verifRoot(), "replay", "templates", con.ReplayTpl+".go.tmpl"))
		if err != nil {
			return "", "replay template missing: " + err.Error()
		}
		tpl = string(data)
	}
	if tpl != "" && ob.Kind != "safety" {
		// template: first lines starting with "//import " name extra imports;
		// the rest is a statement list that sees the parameters by name
		for i, p := range fn.Params {
			fmt.Fprintf(&body, "\t%s := %s\n\t_ = %s\n", p.Name(), args[i], p.Name())
		}
		for _, line := range strings.Split(tpl, "\n") {
			if strings.HasPrefix(line, "//import ") {
				imports += "\t" + strings.TrimPrefix(line, "//import ") + "\n"
				continue
			}
			body.WriteString("\t" + line + "\n")
		}
	} else {
		fmt.Fprintf(&body, "\t%s(%s)\n", fn.Name(), strings.Join(args, ", "))
		body.WriteString("\tgovcfmt.Println(\"GOVC-REPLAY: RETURNED\")\n")
	}
	if strings.Contains(body.String(), "math.Float") {
		imports += "\t\"math\"\n"
	}
	return fmt.Sprintf(replayHeader, pkg.Name(), imports, body.String()), ""
}

func verifRoot() string {
	if r := os.Getenv("GOVC_ROOT"); r != "" {
		return r
	}
	exe, err := os.Executable()
	if err == nil {
		return filepath.Dir(filepath.Dir(exe))
	}
	return "/verif"
}

// runReplay executes test source src inside package directory dir.
func runReplay(dir, src string) (string, error) {
	tmp, err := os.MkdirTemp("", "govc-replay-")
	if err != nil {
		return "", err
	}
	defer os.RemoveAll(tmp)
	f := filepath.Join(tmp, "replay_test.go")
	if err := os.WriteFile(f, []byte(src), 0o644); err != nil {
		return "", err
	}
	ov := filepath.Join(tmp, "overlay.json")
	data, _ := json.Marshal(map[string]map[string]string{"Replace": {filepath.Join(dir, "zz_govc_replay_test.go"): f}})
	os.WriteFile(ov, data, 0o644)
	cmd := exec.Command("bash", "-c", "ulimit -v 8000000; exec go test -overlay "+ov+" -vet=off -count=1 -timeout 60s -run '^TestGovcReplay$' -v .")
	cmd.Dir = dir
	cmd.Env = goEnv()
	var out bytes.Buffer
	cmd.Stdout, cmd.Stderr = &out, &out
	done := make(chan error, 1)
	go func() { done <- cmd.Run() }()
	select {
	case err = <-done:
	case <-time.After(120 * time.Second):
		cmd.Process.Kill()
		err = fmt.Errorf("replay timed out")
	}
	return out.String(), err
}

// replayVerdict interprets the output of a replay run for an obligation kind.
func replayVerdict(kind, out string) (bool, string) {
	switch {
	case strings.Contains(out, "GOVC-REPLAY: VIOLATION"):
		return true, "clause violated on the real code"
	case strings.Contains(out, "GOVC-REPLAY: PANIC"), strings.Contains(out, "panic:"), strings.Contains(out, "fatal error:"):
		if kind == "safety" || kind == "requires" || kind == "unwind" || kind == "frame" {
			return true, "the real code panics on the model input"
		}
		return true, "the real code panics on the model input"
	case strings.Contains(out, "GOVC-REPLAY: OK"), strings.Contains(out, "GOVC-REPLAY: RETURNED"):
		return false, "the real code did not misbehave on the model input"
	}
	return false, "replay did not run to a verdict"
}

func cmdReplay(args []string) int {
	if len(args) < 1 {
		fmt.Fprintln(os.Stderr, "usage: govc replay <path>")
		return 2
	}
	data, err := os.ReadFile(args[0])
	if err != nil {
		fmt.Fprintln(os.Stderr, err)
		return 2
	}
	var rf ReplayFile
	if err := json.Unmarshal(data, &rf); err != nil {
		fmt.Fprintln(os.Stderr, err)
		return 2
	}
	fmt.Printf("obligation %s (%s)\nclause: %s\nsolver: %s %s\n", rf.Obligation, rf.Kind, rf.Clause, rf.Solver, rf.Status)
	if rf.TestSource == "" {
		fmt.Println("no replayable input: " + rf.Note)
		if rf.SolverOut != "" {
			fmt.Println(rf.SolverOut)
		}
		return 1
	}
	out, _ := runReplay(rf.PkgDir, rf.TestSource)
	fmt.Println(out)
	ok, why := replayVerdict(rf.Kind, out)
	fmt.Println("verdict:", why)
	if ok {
		return 1
	}
	return 0
}
