package main

// Integer abstraction of a bit-vector query.
//
// Chains of inequalities between lengths and offsets (m + n + d <= len ...)
// are notoriously hard for bit-blasting solvers and trivial for linear
// integer arithmetic. This back end translates a quantifier-free query into
// integers *exactly* where the bit-vector operation is linear (constants,
// variables, n-ary bvadd with constant multipliers -> (mod (+ ...) 2^w),
// unsigned/signed comparisons, ite, zero-extension) and abstracts every other
// bit-vector term by an integer variable in [0, 2^w) (the same term always by
// the same variable). The abstraction only loses information, so "unsat" for
// the integer query implies "unsat" for the bit-vector query; "sat" means
// nothing and the next stage is tried.

import (
	"fmt"
	"math/big"
	"sort"
	"strings"
)

type intAbs struct {
	tb     *TB
	defs   []string
	decls  map[string]string // name -> declaration
	ranges []string
	memoI  map[int]string
	memoB  map[int]string
	ok     bool
}

func pow2(w int) string { return new(big.Int).Lsh(bigOne, uint(w)).String() }

func (a *intAbs) opaqueInt(t *Term) string {
	name := fmt.Sprintf("o!%d", t.id)
	if t.op == "var" {
		name = "i!" + t.name
	}
	if _, ok := a.decls[name]; !ok {
		a.decls[name] = fmt.Sprintf("(declare-const |%s| Int)", name)
		a.ranges = append(a.ranges, fmt.Sprintf("(assert (and (<= 0 |%s|) (< |%s| %s)))", name, name, pow2(t.sort.W)))
	}
	return "|" + name + "|"
}

func (a *intAbs) opaqueBool(t *Term) string {
	name := fmt.Sprintf("p!%d", t.id)
	if t.op == "var" {
		name = "b!" + t.name
	}
	if _, ok := a.decls[name]; !ok {
		a.decls[name] = fmt.Sprintf("(declare-const |%s| Bool)", name)
	}
	return "|" + name + "|"
}

func (a *intAbs) define(prefix string, id int, sort, body string) string {
	name := fmt.Sprintf("%s!%d", prefix, id)
	a.defs = append(a.defs, fmt.Sprintf("(define-fun |%s| () %s %s)", name, sort, body))
	return "|" + name + "|"
}

// I translates a bit-vector term to an integer expression in [0, 2^w).
func (a *intAbs) I(t *Term) string {
	if r, ok := a.memoI[t.id]; ok {
		return r
	}
	var r string
	w := t.sort.W
	switch t.op {
	case "const":
		r = t.val.String()
	case "bvadd":
		var parts []string
		for _, m := range t.args {
			switch {
			case m.IsConst():
				parts = append(parts, m.val.String())
			case m.op == "bvmul" && len(m.args) == 2 && m.args[1].IsConst():
				k := m.args[1].val
				// a coefficient close to 2^w is a negative one
				half := new(big.Int).Lsh(bigOne, uint(w-1))
				if k.Cmp(half) >= 0 {
					neg := new(big.Int).Sub(new(big.Int).Lsh(bigOne, uint(w)), k)
					parts = append(parts, fmt.Sprintf("(- (* %s %s))", neg.String(), a.I(m.args[0])))
				} else {
					parts = append(parts, fmt.Sprintf("(* %s %s)", k.String(), a.I(m.args[0])))
				}
			default:
				parts = append(parts, a.I(m))
			}
		}
		r = a.define("s", t.id, "Int", fmt.Sprintf("(mod (+ %s) %s)", strings.Join(parts, " "), pow2(w)))
	case "bvmul":
		if len(t.args) == 2 && t.args[1].IsConst() {
			k := t.args[1].val
			half := new(big.Int).Lsh(bigOne, uint(w-1))
			if k.Cmp(half) >= 0 {
				neg := new(big.Int).Sub(new(big.Int).Lsh(bigOne, uint(w)), k)
				r = a.define("s", t.id, "Int", fmt.Sprintf("(mod (- (* %s %s)) %s)", neg.String(), a.I(t.args[0]), pow2(w)))
			} else {
				r = a.define("s", t.id, "Int", fmt.Sprintf("(mod (* %s %s) %s)", k.String(), a.I(t.args[0]), pow2(w)))
			}
		} else {
			r = a.opaqueInt(t)
		}
	case "ite":
		r = a.define("s", t.id, "Int", fmt.Sprintf("(ite %s %s %s)", a.B(t.args[0]), a.I(t.args[1]), a.I(t.args[2])))
	case "bvudiv", "bvurem", "bvsdiv", "bvsrem":
		// division by a positive constant is exact in integer arithmetic
		// (truncated division for the signed forms, as in SMT-LIB and Go)
		if len(t.args) == 2 && t.args[1].IsConst() && t.args[1].val.Sign() > 0 && t.args[1].val.Cmp(new(big.Int).Lsh(bigOne, uint(w-1))) < 0 {
			c := t.args[1].val.String()
			switch t.op {
			case "bvudiv":
				r = a.define("s", t.id, "Int", fmt.Sprintf("(div %s %s)", a.I(t.args[0]), c))
			case "bvurem":
				r = a.define("s", t.id, "Int", fmt.Sprintf("(mod %s %s)", a.I(t.args[0]), c))
			case "bvsdiv":
				sx := a.signed(t.args[0])
				r = a.define("s", t.id, "Int", fmt.Sprintf("(mod (ite (>= %s 0) (div %s %s) (- (div (- %s) %s))) %s)", sx, sx, c, sx, c, pow2(w)))
			case "bvsrem":
				sx := a.signed(t.args[0])
				r = a.define("s", t.id, "Int", fmt.Sprintf("(mod (ite (>= %s 0) (mod %s %s) (- (mod (- %s) %s))) %s)", sx, sx, c, sx, c, pow2(w)))
			}
		} else {
			r = a.opaqueInt(t)
		}
	case "zero_extend":
		r = a.I(t.args[0])
	default:
		r = a.opaqueInt(t)
	}
	a.memoI[t.id] = r
	return r
}

func (a *intAbs) signed(t *Term) string {
	w := t.sort.W
	i := a.I(t)
	return fmt.Sprintf("(ite (< %s %s) %s (- %s %s))", i, pow2(w-1), i, i, pow2(w))
}

// B translates a Boolean term.
func (a *intAbs) B(t *Term) string {
	if r, ok := a.memoB[t.id]; ok {
		return r
	}
	var r string
	switch t.op {
	case "true", "false":
		r = t.op
	case "not":
		r = "(not " + a.B(t.args[0]) + ")"
	case "and", "or":
		var ps []string
		for _, x := range t.args {
			ps = append(ps, a.B(x))
		}
		r = a.define("q", t.id, "Bool", "("+t.op+" "+strings.Join(ps, " ")+")")
	case "=>":
		r = a.define("q", t.id, "Bool", "(=> "+a.B(t.args[0])+" "+a.B(t.args[1])+")")
	case "ite":
		r = a.define("q", t.id, "Bool", "(ite "+a.B(t.args[0])+" "+a.B(t.args[1])+" "+a.B(t.args[2])+")")
	case "=":
		switch t.args[0].sort.K {
		case SBool:
			r = a.define("q", t.id, "Bool", "(= "+a.B(t.args[0])+" "+a.B(t.args[1])+")")
		case SBV:
			r = a.define("q", t.id, "Bool", "(= "+a.I(t.args[0])+" "+a.I(t.args[1])+")")
		default:
			r = a.opaqueBool(t)
		}
	case "bvult":
		r = a.define("q", t.id, "Bool", "(< "+a.I(t.args[0])+" "+a.I(t.args[1])+")")
	case "bvule":
		r = a.define("q", t.id, "Bool", "(<= "+a.I(t.args[0])+" "+a.I(t.args[1])+")")
	case "bvslt":
		r = a.define("q", t.id, "Bool", "(< "+a.signed(t.args[0])+" "+a.signed(t.args[1])+")")
	case "bvsle":
		r = a.define("q", t.id, "Bool", "(<= "+a.signed(t.args[0])+" "+a.signed(t.args[1])+")")
	case "forall":
		a.ok = false
		r = "true"
	default:
		r = a.opaqueBool(t)
	}
	a.memoB[t.id] = r
	return r
}

// IntAbstraction renders the integer abstraction of the query; ok is false if
// the query cannot be abstracted (quantifiers).
func (b *TB) IntAbstraction(asserts []*Term) (string, bool) {
	a := &intAbs{tb: b, decls: map[string]string{}, memoI: map[int]string{}, memoB: map[int]string{}, ok: true}
	var as []string
	for _, t := range asserts {
		as = append(as, "(assert "+a.B(t)+")")
	}
	if !a.ok {
		return "", false
	}
	var sb strings.Builder
	sb.WriteString("(set-logic ALL)\n")
	var names []string
	for n := range a.decls {
		names = append(names, n)
	}
	sort.Strings(names)
	for _, n := range names {
		sb.WriteString(a.decls[n] + "\n")
	}
	for _, r := range a.ranges {
		sb.WriteString(r + "\n")
	}
	for _, d := range a.defs {
		sb.WriteString(d + "\n")
	}
	for _, s := range as {
		sb.WriteString(s + "\n")
	}
	sb.WriteString("(check-sat)\n")
	return sb.String(), true
}
