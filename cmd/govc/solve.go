package main

import (
	"bytes"
	"context"
	"fmt"
	"os"
	"os/exec"
	"path/filepath"
	"regexp"
	"sort"
	"strings"
	"sync"
	"time"
)

type Result struct {
	Status  string // unsat | sat | unknown | timeout | error | trivial
	Solver  string
	Secs    float64
	MaxQ    float64 // slowest single solver query behind this result
	Model   map[string]string
	Raw     string
	Attempt []string
}

type solverSpec struct {
	name string
	bin  string
	args func(file string, timeoutSec int) []string
}

var solvers = []solverSpec{
	{"z3-new", "z3-new", func(f string, t int) []string { return []string{fmt.Sprintf("-T:%d", t), f} }},
	{"z3", "z3", func(f string, t int) []string { return []string{fmt.Sprintf("-T:%d", t), f} }},
	{"cvc5", "cvc5", func(f string, t int) []string {
		return []string{fmt.Sprintf("--tlimit=%d", t*1000), "--produce-models", f}
	}},
}

var availableSolvers []solverSpec

func probeSolvers() {
	for _, s := range solvers {
		if _, err := exec.LookPath(s.bin); err == nil {
			availableSolvers = append(availableSolvers, s)
		}
	}
}

type solveCfg struct {
	tmp       string
	fastSec   int // first attempt, first solver only
	fullSec   int // portfolio
	keepFiles bool
	fastOnly  bool // stop after the single-solver attempt
	skipFast  bool // go straight to the portfolio
}

func (c *solveCfg) fast() *solveCfg { d := *c; d.fastOnly = true; return &d }
func (c *solveCfg) slow() *solveCfg { d := *c; d.skipFast = true; return &d }

func runSolver(ctx context.Context, s solverSpec, file string, timeoutSec int) (string, string, float64) {
	t0 := time.Now()
	cctx, cancel := context.WithTimeout(ctx, time.Duration(timeoutSec+2)*time.Second)
	defer cancel()
	cmd := exec.CommandContext(cctx, s.bin, s.args(file, timeoutSec)...)
	var out bytes.Buffer
	cmd.Stdout = &out
	cmd.Stderr = &out
	_ = cmd.Run()
	secs := time.Since(t0).Seconds()
	txt := out.String()
	first := strings.TrimSpace(strings.SplitN(txt, "\n", 2)[0])
	switch first {
	case "sat", "unsat", "unknown":
		return first, txt, secs
	}
	if cctx.Err() != nil || strings.Contains(txt, "timeout") || strings.Contains(txt, "interrupted") {
		return "timeout", txt, secs
	}
	return "error", txt, secs
}

// solve decides the query asserts (sat = counterexample).
func solve(cfg *solveCfg, id string, script string, quant bool) Result {
	file := filepath.Join(cfg.tmp, sanitizeFile(id)+".smt2")
	if err := os.WriteFile(file, []byte(script), 0o644); err != nil {
		return Result{Status: "error", Raw: err.Error()}
	}
	if !cfg.keepFiles {
		defer os.Remove(file)
	}
	var res Result
	if len(availableSolvers) == 0 {
		return Result{Status: "error", Raw: "no solver"}
	}
	// fast attempt
	if !cfg.skipFast {
		st, raw, secs := runSolver(context.Background(), availableSolvers[0], file, cfg.fastSec)
		res.Attempt = append(res.Attempt, fmt.Sprintf("%s:%s:%.2fs", availableSolvers[0].name, st, secs))
		if st == "sat" || st == "unsat" {
			res.Status, res.Solver, res.Secs, res.Raw = st, availableSolvers[0].name, secs, raw
			if st == "sat" {
				res.Model = parseModel(raw)
			}
			return res
		}
		if cfg.fastOnly {
			res.Status, res.Solver, res.Secs, res.Raw = st, availableSolvers[0].name, secs, raw
			return res
		}
	}
	// portfolio
	ctx, cancel := context.WithCancel(context.Background())
	defer cancel()
	type ans struct {
		st, raw, name string
		secs          float64
	}
	ch := make(chan ans, len(availableSolvers))
	var wg sync.WaitGroup
	for _, s := range availableSolvers {
		wg.Add(1)
		go func(s solverSpec) {
			defer wg.Done()
			st, raw, secs := runSolver(ctx, s, file, cfg.fullSec)
			ch <- ans{st, raw, s.name, secs}
		}(s)
	}
	go func() { wg.Wait(); close(ch) }()
	best := ans{st: "timeout"}
	for a := range ch {
		res.Attempt = append(res.Attempt, fmt.Sprintf("%s:%s:%.2fs", a.name, a.st, a.secs))
		if a.st == "sat" || a.st == "unsat" {
			best = a
			cancel()
			break
		}
		if a.st == "unknown" && best.st != "unknown" {
			best = a
		} else if best.name == "" {
			best = a
		}
	}
	res.Status, res.Solver, res.Secs, res.Raw = best.st, best.name, best.secs, best.raw
	if best.st == "sat" {
		res.Model = parseModel(best.raw)
	}
	return res
}

func sanitizeFile(s string) string {
	var sb strings.Builder
	for _, r := range s {
		switch {
		case r >= 'a' && r <= 'z', r >= 'A' && r <= 'Z', r >= '0' && r <= '9', r == '_', r == '.', r == '-':
			sb.WriteRune(r)
		default:
			sb.WriteByte('_')
		}
	}
	out := sb.String()
	if len(out) > 150 {
		out = out[:150]
	}
	return out
}

var valRe = regexp.MustCompile(`(#x[0-9a-fA-F]+|#b[01]+|true|false)\s*\)`)

// parseModel reads a (get-value (t1 ... tn)) answer: ((t1 v1) ... (tn vn)).
// Values are returned positionally ("0", "1", ...): the i-th requested term.
func parseModel(raw string) map[string]string {
	m := map[string]string{}
	i := strings.Index(raw, "\n")
	if i < 0 {
		return m
	}
	// each pair ends with "<value>)"; terms themselves may contain values
	// (constants), so split pairs by parenthesis depth
	body := raw[i:]
	depth := 0
	start := -1
	idx := 0
	for j := 0; j < len(body); j++ {
		switch body[j] {
		case '(':
			depth++
			if depth == 2 {
				start = j
			}
		case ')':
			if depth == 2 && start >= 0 {
				pair := body[start : j+1]
				if mm := valRe.FindAllStringSubmatch(pair, -1); len(mm) > 0 {
					m[fmt.Sprint(idx)] = mm[len(mm)-1][1]
				}
				idx++
				start = -1
			}
			depth--
		}
	}
	return m
}

// dischargeAll decides every obligation of a job in parallel.
func dischargeAll(cfg *solveCfg, jr *JobResult, sem chan struct{}) {
	e := jr.engine
	if e == nil {
		return
	}
	var wg sync.WaitGroup
	only := os.Getenv("GOVC_ONLY")
	for _, o := range jr.Obls {
		o := o
		if only != "" && !strings.Contains(o.ID, only) {
			o.Result = Result{Status: "unsat", Solver: "skipped(GOVC_ONLY)"}
			continue
		}
		if o.Kind != "vacuity" && (o.Goal.IsTrue() || o.Cond.IsFalse()) {
			o.Result = Result{Status: "unsat", Solver: "simplifier"}
			continue
		}
		base := append([]*Term{}, e.assumes[:o.NAssume]...)
		var extra []*Term
		if o.Kind != "vacuity" {
			gts := []*Term{o.Cond, o.Goal}
			for _, p := range o.Parts {
				gts = append(gts, p.Cond, p.Goal)
			}
			extra = e.goalDirectedInstances(o, gts)
		}
		if len(o.Parts) > 0 && o.Kind != "vacuity" {
			dischargeParts(cfg, e, o, base, extra, sem, &wg)
			continue
		}
		goalS := o.Goal
		if o.Kind != "vacuity" {
			base, goalS, extra, _ = e.specialize(base, o.Cond, o.Goal, extra, nil)
		}
		asserts := append(base, o.Cond, e.tb.Not(goalS))
		quant := hasQuantifier(asserts)
		logic := "ALL"
		// quantifier-free weakening of the hypotheses: tried first, because
		// a single quantifier takes the solvers off their bit-vector path
		var weak []*Term
		if quant && o.Kind != "vacuity" {
			okW := true
			for _, a := range asserts {
				wa, ok := e.tb.Weaken(a)
				if !ok {
					okW = false
					break
				}
				weak = append(weak, wa)
			}
			if !okW {
				weak = nil
			}
		}
		// extra: goal-directed instances of quantified hypotheses; they are
		// weakened too (they contain the quantifier they instantiate)
		var extraW []*Term
		for _, x := range extra {
			if wx, ok := e.tb.Weaken(x); ok {
				extraW = append(extraW, wx)
			}
		}
		mkScripts := func(split *Term) [4]string {
			full := asserts
			wk := weak
			if split != nil {
				full = append(append([]*Term{}, asserts...), split)
				if wk != nil {
					wk = append(append([]*Term{}, weak...), split)
				}
			}
			var out [4]string
			out[0] = e.tb.Script(full, e.inputs, logic)
			qfTerms := full
			if wk != nil {
				out[1] = e.tb.Script(wk, e.inputs, logic)
				qfTerms = wk
				if len(extraW) > 0 {
					qfTerms = append(append([]*Term{}, wk...), extraW...)
					out[2] = e.tb.Script(qfTerms, e.inputs, logic)
				}
			} else if len(extra) > 0 && !quant {
				qfTerms = append(append([]*Term{}, full...), extra...)
				out[2] = e.tb.Script(qfTerms, e.inputs, logic)
			}
			if !quant || wk != nil {
				if s, ok := e.tb.IntAbstraction(qfTerms); ok {
					out[3] = s
				}
			}
			return out
		}
		sweepable := o.Kind == "safety" && o.Cut && (o.Label == "nil" || o.Label == "typeassert") && jr.Contract != nil && jr.Contract.Abstracted
		run := func(id string, sc [4]string) Result {
			var att []string
			if sc[1] != "" {
				r := solve(cfg.fast(), id+".qf", sc[1], false)
				if r.Status == "unsat" {
					r.Attempt = append(r.Attempt, "quantifier-free weakening of the hypotheses")
					return r
				}
				att = r.Attempt
			}
			if sc[3] != "" && sc[2] == "" && sc[1] != "" {
				r := solveLIA(cfg, id+".lia", sc[3])
				if r.Status == "unsat" {
					r.Attempt = append(append(att, r.Attempt...), "integer abstraction (linear arithmetic over lengths and offsets)")
					return r
				}
				att = append(att, r.Attempt...)
				sc[3] = ""
			}
			if sc[2] != "" {
				r := solve(cfg.fast(), id+".inst", sc[2], false)
				if r.Status == "unsat" {
					r.Attempt = append(append(att, r.Attempt...), "goal-directed instances of quantified hypotheses")
					return r
				}
				att = append(att, r.Attempt...)
			}
			qfOnly := sc[1] == "" && sc[2] == ""
			if qfOnly {
				// quantifier-free query: one bit-vector solver first
				r := solve(cfg.fast(), id, sc[0], false)
				if r.Status == "unsat" || r.Status == "sat" {
					return r
				}
				att = append(att, r.Attempt...)
			}
			if sweepable {
				// a nil / type test behind an abstracted call: if the quick
				// stages do not prove it, it is listed as unproved either way
				return Result{Status: "unknown", Solver: "skipped", Attempt: append(att, "not pursued: listed as unproved when not proved quickly")}
			}
			if sc[3] != "" {
				r := solveLIA(cfg, id+".lia", sc[3])
				if r.Status == "unsat" {
					r.Attempt = append(append(att, r.Attempt...), "integer abstraction (linear arithmetic over lengths and offsets)")
					return r
				}
				att = append(att, r.Attempt...)
			}
			if sc[2] != "" {
				// the instantiated quantifier-free query once more, all solvers
				r := solve(cfg.slow(), id+".inst", sc[2], false)
				if r.Status == "unsat" {
					r.Attempt = append(append(att, r.Attempt...), "goal-directed instances of quantified hypotheses")
					return r
				}
				att = append(att, r.Attempt...)
			} else if sc[1] != "" {
				r := solve(cfg.slow(), id+".qf", sc[1], false)
				if r.Status == "unsat" {
					r.Attempt = append(append(att, r.Attempt...), "quantifier-free weakening of the hypotheses")
					return r
				}
				att = append(att, r.Attempt...)
			}
			c2 := cfg
			if qfOnly {
				c2 = cfg.slow()
			}
			r2 := solve(c2, id, sc[0], quant)
			r2.Attempt = append(att, r2.Attempt...)
			return r2
		}
		if len(o.Splits) == 0 || o.Kind == "vacuity" {
			scr := mkScripts(nil)
			wg.Add(1)
			sem <- struct{}{}
			go func() {
				defer wg.Done()
				defer func() { <-sem }()
				o.Result = run(o.ID, scr)
			}()
			continue
		}
		// case split: every case must be unsat
		parts := make([]Result, len(o.Splits))
		var pwg sync.WaitGroup
		for i, sp := range o.Splits {
			i := i
			scr := mkScripts(sp)
			pwg.Add(1)
			sem <- struct{}{}
			go func() {
				defer pwg.Done()
				defer func() { <-sem }()
				parts[i] = run(fmt.Sprintf("%s.case%d", o.ID, i), scr)
			}()
		}
		wg.Add(1)
		go func() {
			defer wg.Done()
			pwg.Wait()
			res := Result{Status: "unsat", Solver: ""}
			solvers := map[string]bool{}
			for i, r := range parts {
				res.Secs += r.Secs
				res.Attempt = append(res.Attempt, fmt.Sprintf("case%d:%s:%s:%.2fs", i, r.Solver, r.Status, r.Secs))
				solvers[r.Solver] = true
				if r.Status == "sat" {
					res.Status, res.Model, res.Raw, res.Solver = "sat", r.Model, r.Raw, r.Solver
					break
				}
				if r.Status != "unsat" && res.Status == "unsat" {
					res.Status, res.Raw, res.Solver = r.Status, r.Raw, r.Solver
				}
			}
			if res.Status == "unsat" {
				var ns []string
				for n := range solvers {
					ns = append(ns, n)
				}
				sort.Strings(ns)
				res.Solver = strings.Join(ns, "+")
			}
			o.Result = res
		}()
	}
	wg.Wait()
}

// solveLIA runs the integer abstraction; only "unsat" is meaningful.
// specialize simplifies the hypotheses and the goal under the literals the
// path condition fixes: an assumption guarded by the reach condition of a
// different path becomes true and is dropped. Equivalence-preserving under
// cond, which stays among the assertions.
func (e *Engine) specialize(base []*Term, cond, goal *Term, extra, extraW []*Term) ([]*Term, *Term, []*Term, []*Term) {
	if os.Getenv("GOVC_NOSPECIALIZE") != "" {
		return base, goal, extra, extraW
	}
	if e.specMemo == nil {
		e.specMemo = map[[2]int]*specEntry{}
	}
	key := [2]int{cond.id, len(base)}
	se := e.specMemo[key]
	if se == nil {
		se = &specEntry{lits: map[*Term]*Term{}, cache: map[int]*Term{}}
		e.literalsOf(cond, true, se.lits)
		if len(se.lits) > 0 {
			for _, a := range base {
				a2 := e.tb.SubstC(a, se.lits, se.cache)
				if a2.IsTrue() {
					continue
				}
				se.base = append(se.base, a2)
			}
		}
		e.specMemo[key] = se
	}
	if len(se.lits) == 0 {
		return base, goal, extra, extraW
	}
	sub := func(ts []*Term) []*Term {
		var out []*Term
		for _, a := range ts {
			a2 := e.tb.SubstC(a, se.lits, se.cache)
			if a2.IsTrue() {
				continue
			}
			out = append(out, a2)
		}
		return out
	}
	return se.base, e.tb.SubstC(goal, se.lits, se.cache), sub(extra), sub(extraW)
}

type specEntry struct {
	lits  map[*Term]*Term
	cache map[int]*Term
	base  []*Term
}

func solveLIA(cfg *solveCfg, id, script string) Result {
	file := filepath.Join(cfg.tmp, sanitizeFile(id)+".smt2")
	if err := os.WriteFile(file, []byte(script), 0o644); err != nil {
		return Result{Status: "error", Raw: err.Error()}
	}
	if !cfg.keepFiles {
		defer os.Remove(file)
	}
	var res Result
	for _, s := range availableSolvers {
		if s.name == "z3" {
			continue
		}
		st, raw, secs := runSolver(context.Background(), s, file, cfg.fastSec*4)
		res.Attempt = append(res.Attempt, fmt.Sprintf("%s:lia:%s:%.2fs", s.name, st, secs))
		res.Secs += secs
		if st == "unsat" {
			res.Status, res.Solver, res.Raw = "unsat", s.name + "(lia)", raw
			return res
		}
	}
	res.Status = "unknown"
	return res
}

// dischargeParts decides an obligation that is a conjunction over program
// paths (and possibly a case split): every (part, case) query must be unsat.
func dischargeParts(cfg *solveCfg, e *Engine, o *Obligation, base, extra []*Term, sem chan struct{}, wg *sync.WaitGroup) {
	type q struct {
		id   string
		full string
		wk   string
		inst string
		lia  string
	}
	var extraW []*Term
	for _, x := range extra {
		if wx, ok := e.tb.Weaken(x); ok {
			extraW = append(extraW, wx)
		}
	}
	var qs []q
	splits := o.Splits
	if len(splits) == 0 {
		splits = []*Term{nil}
	}
	for pi, p := range o.Parts {
		for si, sp := range splits {
			cond := p.Cond
			if sp != nil {
				if sp.IsFalse() {
					continue
				}
				cond = e.tb.And(p.Cond, sp)
			}
			baseP, goalP, extra, extraW := e.specialize(base, cond, p.Goal, extra, extraW)
			asserts := append(append([]*Term{}, baseP...), p.Cond, e.tb.Not(goalP))
			if sp != nil {
				asserts = append(asserts, sp)
			}
			id := fmt.Sprintf("%s.path%d", o.ID, pi)
			if sp != nil {
				id = fmt.Sprintf("%s.case%d", id, si)
			}
			wk, inst := "", ""
			if hasQuantifier(asserts) {
				ok := true
				var weak []*Term
				for _, a := range asserts {
					wa, k := e.tb.Weaken(a)
					if !k {
						ok = false
						break
					}
					weak = append(weak, wa)
				}
				if ok {
					wk = e.tb.Script(weak, e.inputs, "ALL")
					if len(extraW) > 0 {
						inst = e.tb.Script(append(weak, extraW...), e.inputs, "ALL")
					}
				}
			}
			if inst == "" && len(extra) > 0 {
				inst = e.tb.Script(append(append([]*Term{}, asserts...), extra...), e.inputs, "ALL")
			}
			lia := ""
			{
				var qfTerms []*Term
				ok := true
				for _, a := range asserts {
					wa, k := e.tb.Weaken(a)
					if !k {
						ok = false
						break
					}
					qfTerms = append(qfTerms, wa)
				}
				if ok {
					qfTerms = append(qfTerms, extraW...)
					if s, ok2 := e.tb.IntAbstraction(qfTerms); ok2 {
						lia = s
					}
				}
			}
			qs = append(qs, q{id, e.tb.Script(asserts, e.inputs, "ALL"), wk, inst, lia})
		}
	}
	parts := make([]Result, len(qs))
	var pwg sync.WaitGroup
	for i, qq := range qs {
		i, qq := i, qq
		pwg.Add(1)
		sem <- struct{}{}
		go func() {
			defer pwg.Done()
			defer func() { <-sem }()
			if qq.wk != "" {
				r := solve(cfg.fast(), qq.id+".qf", qq.wk, false)
				if r.Status == "unsat" {
					parts[i] = r
					return
				}
			}
			qfOnly := qq.wk == "" && qq.inst == ""
			if qfOnly {
				r := solve(cfg.fast(), qq.id, qq.full, false)
				if r.Status == "unsat" || r.Status == "sat" {
					parts[i] = r
					return
				}
			}
			if qq.inst != "" {
				r := solve(cfg.fast(), qq.id+".inst", qq.inst, false)
				if r.Status == "unsat" {
					parts[i] = r
					return
				}
			}
			if qq.lia != "" {
				r := solveLIA(cfg, qq.id+".lia", qq.lia)
				if r.Status == "unsat" {
					parts[i] = r
					return
				}
			}
			if qq.inst != "" {
				r := solve(cfg.slow(), qq.id+".inst", qq.inst, false)
				if r.Status == "unsat" {
					parts[i] = r
					return
				}
			} else if qq.wk != "" {
				r := solve(cfg.slow(), qq.id+".qf", qq.wk, false)
				if r.Status == "unsat" {
					parts[i] = r
					return
				}
			}
			c2 := cfg
			if qfOnly {
				c2 = cfg.slow()
			}
			parts[i] = solve(c2, qq.id, qq.full, true)
		}()
	}
	wg.Add(1)
	go func() {
		defer wg.Done()
		pwg.Wait()
		res := Result{Status: "unsat"}
		solvers := map[string]bool{}
		maxSecs := 0.0
		for i, r := range parts {
			res.Secs += r.Secs
			if r.Secs > maxSecs {
				maxSecs = r.Secs
			}
			if r.Status != "unsat" || len(parts) <= 12 {
				res.Attempt = append(res.Attempt, fmt.Sprintf("%s:%s:%s:%.2fs", strings.TrimPrefix(qs[i].id, o.ID+"."), r.Solver, r.Status, r.Secs))
			}
			solvers[r.Solver] = true
			if r.Status == "sat" && res.Status != "sat" {
				res.Status, res.Model, res.Raw, res.Solver = "sat", r.Model, r.Raw, r.Solver
			}
			if r.Status != "unsat" && res.Status == "unsat" {
				res.Status, res.Raw, res.Solver = r.Status, r.Raw, r.Solver
			}
		}
		if res.Status == "unsat" {
			var ns []string
			for n := range solvers {
				ns = append(ns, n)
			}
			sort.Strings(ns)
			res.Solver = strings.Join(ns, "+")
			res.Attempt = append(res.Attempt, fmt.Sprintf("%d path/case queries, slowest %.2fs", len(parts), maxSecs))
		}
		res.MaxQ = maxSecs
		o.Result = res
	}()
}
