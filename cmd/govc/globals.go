package main

// Runtime images of package-level variables named in "global" directives.
// They are extracted mechanically on every run by executing the real,
// initialised package (an in-package test injected with go test -overlay;
// nothing is written under /repo).

import (
	"bytes"
	"encoding/json"
	"fmt"
	"os"
	"os/exec"
	"path/filepath"
	"strings"
)

type GlobalImage struct {
	Bytes  []byte
	Ptrs   []ImgPtr
	Opaque [][2]int
}

type ImgPtr struct {
	Off    int
	Target *GlobalImage
}

const dumpTestTmpl = `package %s

import (
	govcjson "encoding/json"
	govcos "os"
	govcreflect "reflect"
	govctesting "testing"
	govcunsafe "unsafe"
)

type govcImg struct {
	Bytes  []byte
	Ptrs   []govcPtr
	Opaque [][2]int
}

type govcPtr struct {
	Off    int
	Target *govcImg
}

func govcDump(p govcunsafe.Pointer, t govcreflect.Type, depth int) *govcImg {
	size := t.Size()
	img := &govcImg{Bytes: append([]byte(nil), govcunsafe.Slice((*byte)(p), size)...)}
	govcWalk(img, p, t, 0, depth)
	return img
}

func govcWalk(img *govcImg, base govcunsafe.Pointer, t govcreflect.Type, off uintptr, depth int) {
	switch t.Kind() {
	case govcreflect.Slice:
		hdr := (*[3]uintptr)(govcunsafe.Add(base, off))
		n := hdr[1]
		// capacity is recorded as the length: only [0,len) is imaged
		for i := 0; i < 8; i++ {
			img.Bytes[int(off)+16+i] = img.Bytes[int(off)+8+i]
		}
		if hdr[0] != 0 && n > 0 && depth < 4 && t.Elem().Size() > 0 {
			arr := govcreflect.ArrayOf(int(n), t.Elem())
			img.Ptrs = append(img.Ptrs, govcPtr{int(off), govcDump(*(*govcunsafe.Pointer)(govcunsafe.Add(base, off)), arr, depth+1)})
		}
	case govcreflect.String:
		hdr := (*[2]uintptr)(govcunsafe.Add(base, off))
		n := hdr[1]
		if hdr[0] != 0 && n > 0 {
			arr := govcreflect.ArrayOf(int(n), govcreflect.TypeOf(byte(0)))
			img.Ptrs = append(img.Ptrs, govcPtr{int(off), govcDump(*(*govcunsafe.Pointer)(govcunsafe.Add(base, off)), arr, depth+1)})
		}
	case govcreflect.Ptr:
		p := *(*govcunsafe.Pointer)(govcunsafe.Add(base, off))
		if p != nil && depth < 4 {
			img.Ptrs = append(img.Ptrs, govcPtr{int(off), govcDump(p, t.Elem(), depth+1)})
		}
	case govcreflect.Array:
		es := t.Elem().Size()
		switch t.Elem().Kind() {
		case govcreflect.Bool, govcreflect.Int, govcreflect.Int8, govcreflect.Int16, govcreflect.Int32, govcreflect.Int64,
			govcreflect.Uint, govcreflect.Uint8, govcreflect.Uint16, govcreflect.Uint32, govcreflect.Uint64, govcreflect.Uintptr,
			govcreflect.Float32, govcreflect.Float64:
			return
		}
		for i := 0; i < t.Len(); i++ {
			govcWalk(img, base, t.Elem(), off+uintptr(i)*es, depth)
		}
	case govcreflect.Struct:
		for i := 0; i < t.NumField(); i++ {
			govcWalk(img, base, t.Field(i).Type, off+t.Field(i).Offset, depth)
		}
	case govcreflect.Map, govcreflect.Func, govcreflect.Chan, govcreflect.Interface, govcreflect.UnsafePointer:
		img.Opaque = append(img.Opaque, [2]int{int(off), int(t.Size())})
	}
}

func TestGovcDump(t *govctesting.T) {
	out := map[string]*govcImg{}
%s
	data, err := govcjson.Marshal(out)
	if err != nil {
		t.Fatal(err)
	}
	if err := govcos.WriteFile(govcos.Getenv("GOVC_DUMP_OUT"), data, 0o644); err != nil {
		t.Fatal(err)
	}
}
`

func goEnv() []string {
	return append(os.Environ(), "GOFLAGS=-mod=mod", "GOPROXY=off", "GOSUMDB=off", "GOTOOLCHAIN=local", "GOWORK=off")
}

func (w *World) loadImages() error {
	defer func() {
		if os.Getenv("GOVC_DEBUG") != "" {
			for k, v := range w.images {
				fmt.Fprintf(os.Stderr, "image %s: %d bytes, %d ptrs\n", k, len(v.Bytes), len(v.Ptrs))
			}
		}
	}()
	for _, cs := range w.csets {
		if len(cs.Globals) == 0 {
			continue
		}
		pkg := w.pkgs[cs.Pkg]
		if pkg == nil {
			continue
		}
		need := false
		for _, g := range cs.Globals {
			if _, ok := w.images[cs.Pkg+"."+g]; !ok {
				need = true
			}
		}
		if !need {
			continue
		}
		dir := cs.Dir
		var body strings.Builder
		for _, g := range cs.Globals {
			fmt.Fprintf(&body, "\tout[%q] = govcDump(govcunsafe.Pointer(&%s), govcreflect.TypeOf(%s), 0)\n", g, g, g)
		}
		tmp, err := os.MkdirTemp("", "govc-dump-")
		if err != nil {
			return err
		}
		defer os.RemoveAll(tmp)
		src := filepath.Join(tmp, "dump_test.go")
		if err := os.WriteFile(src, []byte(fmt.Sprintf(dumpTestTmpl, cs.Pkg, body.String())), 0o644); err != nil {
			return err
		}
		ov := filepath.Join(tmp, "overlay.json")
		ovData, _ := json.Marshal(map[string]map[string]string{"Replace": {filepath.Join(dir, "zz_govc_dump_test.go"): src}})
		os.WriteFile(ov, ovData, 0o644)
		outFile := filepath.Join(tmp, "out.json")
		cmd := exec.Command("go", "test", "-overlay", ov, "-vet=off", "-count=1", "-timeout", "120s", "-run", "^TestGovcDump$", ".")
		cmd.Dir = dir
		cmd.Env = append(goEnv(), "GOVC_DUMP_OUT="+outFile)
		var out bytes.Buffer
		cmd.Stdout, cmd.Stderr = &out, &out
		if err := cmd.Run(); err != nil {
			return fmt.Errorf("dumping globals of %s: %v\n%s", cs.Pkg, err, out.String())
		}
		data, err := os.ReadFile(outFile)
		if err != nil {
			return err
		}
		imgs := map[string]*GlobalImage{}
		if err := json.Unmarshal(data, &imgs); err != nil {
			return err
		}
		for k, v := range imgs {
			w.images[cs.Pkg+"."+k] = v
		}
	}
	return nil
}
