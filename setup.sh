#!/bin/sh
# Builds bin/govc from cmd/ + vendor/, offline.
set -e
cd "$(dirname "$0")"
export GOFLAGS=-mod=vendor GOPROXY=off GOSUMDB=off GOTOOLCHAIN=local GOWORK=off
mkdir -p bin evidence
go build -o bin/govc ./cmd/govc
for s in z3 z3-new cvc5; do
  command -v "$s" >/dev/null 2>&1 || echo "setup: warning: solver $s not found" >&2
done
echo "setup: ok"
